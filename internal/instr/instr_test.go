package instr

import (
	"os"
	"os/exec"
	"path/filepath"
	"strings"
	"testing"
)

// TestConstructs instruments a small package that uses the constructs the rewriter has to
// cope with (embedded mutex, RWMutex, Pool, Once, map ranges of every shape, labels, goto,
// type switches, closures, defers, named results) and checks that the instrumented copy
// behaves like the original with the simulator inert.
func TestConstructs(t *testing.T) {
	verif, _ := filepath.Abs("../..")
	tmp := t.TempDir()
	inst := filepath.Join(tmp, "inst")
	os.MkdirAll(inst, 0o755)
	res, err := Instrument("testdata/lib", inst, filepath.Join(verif, "simrt"), false)
	if err != nil {
		t.Fatal(err)
	}
	if res.MutexOps < 6 || res.GoStmts != 2 || res.PoolOps != 2 || res.MapRanges != 5 || res.OnceOps != 1 {
		t.Fatalf("unexpected rewrite counts: %+v", res)
	}
	run := func(libDir string) string {
		d := filepath.Join(tmp, "main-"+filepath.Base(libDir))
		os.MkdirAll(d, 0o755)
		os.WriteFile(filepath.Join(d, "main.go"), []byte("package main\nimport (\"fmt\";\"example.com/lib\")\nfunc main(){ for _, l := range lib.Run() { fmt.Println(l) } }\n"), 0o644)
		abs, _ := filepath.Abs(libDir)
		os.WriteFile(filepath.Join(d, "go.mod"), []byte("module m\ngo 1.23\nrequire example.com/lib v0.0.0\nrequire verif/simrt v0.0.0\nreplace example.com/lib => "+abs+"\nreplace verif/simrt => "+filepath.Join(verif, "simrt")+"\n"), 0o644)
		cmd := exec.Command("go", "run", ".")
		cmd.Dir = d
		cmd.Env = append(os.Environ(), "GOFLAGS=-mod=mod", "GOPROXY=off", "GOSUMDB=off", "GOTOOLCHAIN=local")
		out, err := cmd.CombinedOutput()
		if err != nil {
			t.Fatalf("%s: %v\n%s", libDir, err, out)
		}
		return string(out)
	}
	a, b := run("testdata/lib"), run(inst)
	if a != b {
		t.Fatalf("instrumented copy behaves differently:\n--- original\n%s--- instrumented\n%s", a, b)
	}
	if !strings.Contains(a, "seen 1") {
		t.Fatalf("unexpected transcript:\n%s", a)
	}
}

// TestUnsupported: constructs the simulator cannot own must stop the instrumenter.
func TestUnsupported(t *testing.T) {
	verif, _ := filepath.Abs("../..")
	cases := map[string]string{
		"go builtin":      "package lib\nfunc F() { go println() }\n",
		"range over chan": "package lib\nfunc G() chan int { return nil }\nfunc F() { for range G() {} }\n",
		"blocking select": "package lib\nfunc F(c chan int) { select { case <-c: } }\n",
		"time.Sleep":      "package lib\nimport \"time\"\nfunc F() { time.Sleep(1) }\n",

		"time.NewTimer":   "package lib\nimport \"time\"\nfunc F() { time.NewTimer(1) }\n",
	}
	for name, src := range cases {
		tmp := t.TempDir()
		in, out := filepath.Join(tmp, "in"), filepath.Join(tmp, "out")
		os.MkdirAll(in, 0o755)
		os.MkdirAll(out, 0o755)
		os.WriteFile(filepath.Join(in, "go.mod"), []byte("module example.com/lib\ngo 1.15\n"), 0o644)
		os.WriteFile(filepath.Join(in, "lib.go"), []byte(src), 0o644)
		_, err := Instrument(in, out, filepath.Join(verif, "simrt"), false)
		if _, ok := err.(*Unsupported); !ok {
			t.Errorf("%s: expected an Unsupported error, got %v", name, err)
		}
	}
}
