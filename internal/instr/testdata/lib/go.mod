module example.com/lib

go 1.15
