package lib

import (
	"fmt"
	"sort"
	"sync"
)

type counter struct {
	sync.Mutex
	n int
}

type store struct {
	mu   sync.RWMutex
	pool *sync.Pool
	once sync.Once
	m    map[string]int
	keys map[kind]string
}

type kind int

var global = store{pool: &sync.Pool{New: func() interface{} { return new([]int) }}, m: map[string]int{}, keys: map[kind]string{}}

func (c *counter) inc() int {
	c.Lock()
	defer c.Unlock()
	c.n++
	return c.n
}

func (s *store) init() {
	s.once.Do(func() {
		s.m["z"] = 26
		s.m["a"] = 1
		s.m["m"] = 13
		s.keys[2] = "two"
		s.keys[1] = "one"
	})
}

func (s *store) sum() (total int, names []string) {
	s.mu.RLock()
	defer s.mu.RUnlock()
	for k, v := range s.m {
		total += v
		names = append(names, k)
	}
	sort.Strings(names)
	var k string
	for k = range s.m {
		_ = k
	}
	for _, v := range s.m {
		total += v * 0
	}
	for range s.m {
		total += 0
	}
	var ks []string
	for kk, vv := range s.keys {
		ks = append(ks, fmt.Sprint(int(kk), vv))
	}
	sort.Strings(ks)
	names = append(names, ks...)
	return
}

func (s *store) put(k string, v int) {
	s.mu.Lock()
	s.m[k] = v
	s.mu.Unlock()
}

func (s *store) scratch(n int) int {
	buf := s.pool.Get().(*[]int)
	defer s.pool.Put(buf)
	*buf = (*buf)[:0]
	for i := 0; i < n; i++ {
		*buf = append(*buf, i)
	}
	t := 0
outer:
	for i := range *buf {
		switch x := (*buf)[i]; {
		case x%2 == 0:
			continue outer
		case x > 7:
			break outer
		default:
			t += x
		}
	}
	if t > 100 {
		goto done
	}
	t++
done:
	return t
}

func classify(v interface{}) (s string) {
	defer func() {
		if r := recover(); r != nil {
			s = fmt.Sprint("recovered:", r)
		}
	}()
	switch t := v.(type) {
	case nil:
		return "nil"
	case int:
		if t < 0 {
			panic("negative")
		}
		return "int"
	case string:
		f := func(x string) string { return x + "!" }
		return f(t)
	}
	return "other"
}

type job struct{ n int }

var free = make(chan *job, 2)
var done = make(chan struct{})
var anyc = make(chan interface{}, 1)

func channels() string {
	free <- &job{n: 1}
	free <- new(job)
	a := <-free
	b, ok := <-free
	anyc <- nil
	x := <-anyc
	var got *job
	select {
	case got = <-free:
		got.n = 7
	default:
		got = &job{n: 9}
	}
	select {
	case free <- got:
	default:
	}
	got = <-free
	close(done)
	<-done
	_, open := <-done
	return fmt.Sprint(a.n, b.n, ok, x, open, len(free), got.n)
}

// Run exercises everything and returns a transcript.
func Run() []string {
	var out []string
	c := &counter{}
	for i := 0; i < 3; i++ {
		out = append(out, fmt.Sprint("inc ", c.inc()))
	}
	global.init()
	global.init()
	global.put("b", 2)
	t, n := global.sum()
	out = append(out, fmt.Sprint("sum ", t, n))
	out = append(out, fmt.Sprint("scratch ", global.scratch(12), global.scratch(3)))
	for _, v := range []interface{}{nil, 1, -1, "s", 2.5} {
		out = append(out, classify(v))
	}
	out = append(out, "chan "+channels())
	out = append(out, fmt.Sprint("par ", parallelSum([]int{1, 2, 3, 4})))
	del := map[string]int{"x": 1, "y": 2, "z": 3}
	seen := 0
	for k := range del {
		delete(del, "y")
		delete(del, "z")
		delete(del, "x")
		_ = k
		seen++
	}
	out = append(out, fmt.Sprint("seen ", seen))
	return out
}

func parallelSum(xs []int) int {
	var wg sync.WaitGroup
	var mu sync.Mutex
	total := 0
	for _, x := range xs {
		wg.Add(1)
		go func(v int) {
			defer wg.Done()
			mu.Lock()
			total += v
			mu.Unlock()
		}(x)
	}
	wg.Wait()
	res := make(chan int, 1)
	go produce(res, total)
	return <-res
}

func produce(c chan int, v int) { c <- v * 2 }
