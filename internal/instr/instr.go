// Package instr rewrites a copy of the library so that it runs under the simulator
// (DESIGN.md §2.1).  It works by splicing text at AST positions, so line numbers of the
// copy equal those of the original tree.
package instr

import (
	"bytes"
	"fmt"
	"go/ast"
	"go/importer"
	"go/parser"
	"go/token"
	"go/types"
	"os"
	"path/filepath"
	"sort"
	"strings"
)

// Unsupported is returned when the library uses a construct the simulator cannot own.
type Unsupported struct{ Msg string }

func (u *Unsupported) Error() string { return "cannot simulate: " + u.Msg }

// Site mirrors simrt.Site.
type Site struct {
	File  string
	Line  int
	Func  string
	Kind  int
	Flags int
}

const (
	kindEntry = 0
	kindLoop  = 1
	kindStmt  = 2

	flagInDeferLit  = 1
	flagDeferTarget = 2
	flagGenerated   = 4
)

type edit struct {
	start, end int // byte offsets in the file; start==end means insertion
	text       string
	seq        int
}

type fileCtx struct {
	name      string
	src       []byte
	file      *ast.File
	generated bool
	edits     []edit
	usesSimrt bool
}

type ctx struct {
	fset         *token.FileSet
	info         *types.Info
	pkg          *types.Package
	sites        []Site
	deferLits    map[*ast.FuncLit]bool
	deferTargets map[types.Object]bool
	seq          int
	tmpN         int
	err          error
}

// Result of an instrumentation.
type Result struct {
	Sites     []Site
	Files     int
	MutexOps  int
	PoolOps   int
	MapRanges int
	OnceOps   int
	ChanOps   int
	GoStmts   int
}

// Instrument copies the non-test Go files of srcDir (plus go.mod) into dstDir, rewritten.
// If withTests is set, _test.go files are copied verbatim as well (fidelity run).
func Instrument(srcDir, dstDir, simrtDir string, withTests bool) (*Result, error) {
	ents, err := os.ReadDir(srcDir)
	if err != nil {
		return nil, err
	}
	fset := token.NewFileSet()
	var files []*fileCtx
	var asts []*ast.File
	for _, e := range ents {
		n := e.Name()
		if e.IsDir() || !strings.HasSuffix(n, ".go") {
			continue
		}
		b, err := os.ReadFile(filepath.Join(srcDir, n))
		if err != nil {
			return nil, err
		}
		if strings.HasSuffix(n, "_test.go") {
			if withTests {
				if err := os.WriteFile(filepath.Join(dstDir, n), b, 0o644); err != nil {
					return nil, err
				}
			}
			continue
		}
		f, err := parser.ParseFile(fset, n, b, parser.ParseComments)
		if err != nil {
			return nil, fmt.Errorf("parse %s: %w", n, err)
		}
		fc := &fileCtx{name: n, src: b, file: f}
		for _, cg := range f.Comments {
			for _, cm := range cg.List {
				// the convention of golang.org/s/generatedcode, wherever the line stands
				if strings.HasPrefix(cm.Text, "// Code generated ") && strings.HasSuffix(strings.TrimSpace(cm.Text), "DO NOT EDIT.") {
					fc.generated = true
				}
			}
		}
		files = append(files, fc)
		asts = append(asts, f)
	}
	if len(files) == 0 {
		return nil, fmt.Errorf("no Go files in %s", srcDir)
	}
	info := &types.Info{
		Types:      map[ast.Expr]types.TypeAndValue{},
		Selections: map[*ast.SelectorExpr]*types.Selection{},
		Uses:       map[*ast.Ident]types.Object{},
		Defs:       map[*ast.Ident]types.Object{},
	}
	conf := types.Config{Importer: importer.ForCompiler(fset, "source", nil), GoVersion: "go1.15"}
	pkg, err := conf.Check(asts[0].Name.Name, fset, asts, info)
	if err != nil {
		return nil, fmt.Errorf("type-check: %w", err)
	}
	c := &ctx{fset: fset, info: info, pkg: pkg,
		deferLits: map[*ast.FuncLit]bool{}, deferTargets: map[types.Object]bool{}}

	// pass 1: defer targets
	for _, fc := range files {
		ast.Inspect(fc.file, func(n ast.Node) bool {
			d, ok := n.(*ast.DeferStmt)
			if !ok {
				return true
			}
			switch fn := d.Call.Fun.(type) {
			case *ast.FuncLit:
				c.deferLits[fn] = true
			case *ast.Ident:
				if o := info.Uses[fn]; o != nil {
					c.deferTargets[o] = true
				}
			case *ast.SelectorExpr:
				if o := info.Uses[fn.Sel]; o != nil {
					c.deferTargets[o] = true
				}
			}
			return true
		})
	}

	res := &Result{}
	for _, fc := range files {
		c.instrumentFile(fc, res)
		if c.err != nil {
			return nil, c.err
		}
	}
	res.Sites = c.sites
	res.Files = len(files)

	for _, fc := range files {
		out := applyEdits(fc)
		if err := os.WriteFile(filepath.Join(dstDir, fc.name), out, 0o644); err != nil {
			return nil, err
		}
	}
	// sites table
	var b bytes.Buffer
	fmt.Fprintf(&b, "package %s\n\nimport \"verif/simrt\"\n\nfunc init() {\n\tsimrt.RegisterSites([]simrt.Site{\n", asts[0].Name.Name)
	for _, s := range c.sites {
		fmt.Fprintf(&b, "\t\t{File: %q, Line: %d, Func: %q, Kind: %d, Flags: %d},\n", s.File, s.Line, s.Func, s.Kind, s.Flags)
	}
	b.WriteString("\t})\n}\n")
	if err := os.WriteFile(filepath.Join(dstDir, "zz_simrt_sites.go"), b.Bytes(), 0o644); err != nil {
		return nil, err
	}
	// go.mod of the copy: same module path and language version, plus simrt
	mod, err := os.ReadFile(filepath.Join(srcDir, "go.mod"))
	if err != nil {
		return nil, err
	}
	modOut := string(mod) + "\nrequire verif/simrt v0.0.0\n\nreplace verif/simrt => " + simrtDir + "\n"
	if err := os.WriteFile(filepath.Join(dstDir, "go.mod"), []byte(modOut), 0o644); err != nil {
		return nil, err
	}
	if sum, err := os.ReadFile(filepath.Join(srcDir, "go.sum")); err == nil {
		_ = os.WriteFile(filepath.Join(dstDir, "go.sum"), sum, 0o644)
	}
	return res, nil
}

func applyEdits(fc *fileCtx) []byte {
	if fc.usesSimrt {
		// import right after the package clause, same line
		off := fc.offset(fc.file.Name.End())
		fc.edits = append(fc.edits, edit{start: off, end: off, text: `;import "verif/simrt"`, seq: -1})
	}
	sort.SliceStable(fc.edits, func(i, j int) bool {
		a, b := fc.edits[i], fc.edits[j]
		if a.start != b.start {
			return a.start < b.start
		}
		// insertions before replacements at the same offset; insertions in seq order
		ai, bi := a.start == a.end, b.start == b.end
		if ai != bi {
			return ai
		}
		return a.seq < b.seq
	})
	var out bytes.Buffer
	pos := 0
	for _, e := range fc.edits {
		if e.start < pos {
			panic(fmt.Sprintf("instr: overlapping edits in %s at %d", fc.name, e.start))
		}
		out.Write(fc.src[pos:e.start])
		out.WriteString(e.text)
		pos = e.end
	}
	out.Write(fc.src[pos:])
	return out.Bytes()
}

func (fc *fileCtx) offset(p token.Pos) int {
	return int(p) - int(fc.file.FileStart)
}

func (fc *fileCtx) text(n ast.Node) string {
	return string(fc.src[fc.offset(n.Pos()):fc.offset(n.End())])
}

func (c *ctx) insert(fc *fileCtx, p token.Pos, text string) {
	c.seq++
	off := fc.offset(p)
	fc.edits = append(fc.edits, edit{start: off, end: off, text: text, seq: c.seq})
	fc.usesSimrt = true
}

func (c *ctx) replace(fc *fileCtx, from, to token.Pos, text string) {
	c.seq++
	fc.edits = append(fc.edits, edit{start: fc.offset(from), end: fc.offset(to), text: text, seq: c.seq})
	fc.usesSimrt = true
}

func (c *ctx) newSite(fc *fileCtx, p token.Pos, fn string, kind, flags int) int {
	if fc.generated {
		flags |= flagGenerated
	}
	c.sites = append(c.sites, Site{File: fc.name, Line: c.fset.Position(p).Line, Func: fn, Kind: kind, Flags: flags})
	return len(c.sites) - 1
}

type fnCtx struct {
	name  string
	flags int
}

func (c *ctx) instrumentFile(fc *fileCtx, res *Result) {
	for _, d := range fc.file.Decls {
		switch d := d.(type) {
		case *ast.FuncDecl:
			if d.Body == nil {
				continue
			}
			name := d.Name.Name
			if d.Recv != nil && len(d.Recv.List) > 0 {
				name = recvName(d.Recv.List[0].Type) + "." + name
			}
			fl := 0
			if c.deferTargets[c.info.Defs[d.Name]] {
				fl |= flagDeferTarget
			}
			c.funcBody(fc, d.Body, fnCtx{name: name, flags: fl}, res)
		case *ast.GenDecl:
			// package-level initialisers may contain function literals
			c.exprs(fc, d, fnCtx{name: "init"}, res)
		}
	}
}

func recvName(e ast.Expr) string {
	switch t := e.(type) {
	case *ast.StarExpr:
		return recvName(t.X)
	case *ast.Ident:
		return t.Name
	case *ast.IndexExpr:
		return recvName(t.X)
	}
	return "?"
}

func (c *ctx) funcBody(fc *fileCtx, body *ast.BlockStmt, fn fnCtx, res *Result) {
	id := c.newSite(fc, body.Lbrace, fn.name, kindEntry, fn.flags)
	c.insert(fc, body.Lbrace+1, fmt.Sprintf("simrt.Yield(%d);", id))
	c.stmtList(fc, body.List, fn, res, true)
}

// stmtList instruments a statement list; skipFirst suppresses the yield before the first
// statement (an entry/loop yield immediately precedes it).
func (c *ctx) stmtList(fc *fileCtx, list []ast.Stmt, fn fnCtx, res *Result, skipFirst bool) {
	for i, s := range list {
		// generated files get function-entry yields only: which statements of the generated
		// helpers run (e.g. tokens32.Add growing its tree or not) depends on what the process
		// parsed before, and a run's schedule must not
		if !(i == 0 && skipFirst) && !fc.generated {
			id := c.newSite(fc, s.Pos(), fn.name, kindStmt, fn.flags)
			c.insert(fc, s.Pos(), fmt.Sprintf("simrt.Yield(%d);", id))
		}
		c.stmt(fc, s, fn, res)
	}
}

func (c *ctx) loopBody(fc *fileCtx, body *ast.BlockStmt, fn fnCtx, res *Result, prefix string) {
	if fc.generated && prefix == "" {
		c.stmtList(fc, body.List, fn, res, true)
		return
	}
	id := c.newSite(fc, body.Lbrace, fn.name, kindLoop, fn.flags)
	c.insert(fc, body.Lbrace+1, prefix+fmt.Sprintf("simrt.Yield(%d);", id))
	c.stmtList(fc, body.List, fn, res, true)
}

func (c *ctx) unsupported(n ast.Node, what string) {
	if c.err == nil {
		c.err = &Unsupported{Msg: fmt.Sprintf("%s at %s", what, c.fset.Position(n.Pos()))}
	}
}

func (c *ctx) stmt(fc *fileCtx, s ast.Stmt, fn fnCtx, res *Result) {
	switch s := s.(type) {
	case *ast.BlockStmt:
		c.stmtList(fc, s.List, fn, res, false)
	case *ast.IfStmt:
		if s.Init != nil {
			c.stmt(fc, s.Init, fn, res)
		}
		c.exprs(fc, s.Cond, fn, res)
		c.stmtList(fc, s.Body.List, fn, res, false)
		if s.Else != nil {
			c.stmt(fc, s.Else, fn, res)
		}
	case *ast.ForStmt:
		if s.Init != nil {
			c.stmt(fc, s.Init, fn, res)
		}
		if s.Cond != nil {
			c.exprs(fc, s.Cond, fn, res)
		}
		if s.Post != nil {
			c.stmt(fc, s.Post, fn, res)
		}
		c.loopBody(fc, s.Body, fn, res, "")
	case *ast.RangeStmt:
		c.rangeStmt(fc, s, fn, res)
	case *ast.SwitchStmt:
		if s.Init != nil {
			c.stmt(fc, s.Init, fn, res)
		}
		if s.Tag != nil {
			c.exprs(fc, s.Tag, fn, res)
		}
		for _, cc := range s.Body.List {
			cl := cc.(*ast.CaseClause)
			for _, e := range cl.List {
				c.exprs(fc, e, fn, res)
			}
			c.stmtList(fc, cl.Body, fn, res, false)
		}
	case *ast.TypeSwitchStmt:
		if s.Init != nil {
			c.stmt(fc, s.Init, fn, res)
		}
		c.stmt(fc, s.Assign, fn, res)
		for _, cc := range s.Body.List {
			cl := cc.(*ast.CaseClause)
			c.stmtList(fc, cl.Body, fn, res, false)
		}
	case *ast.SelectStmt:
		// A select with a default clause never blocks: the real statement is kept (its channel
		// operations are part of the select and stay as they are), only the clause bodies are
		// instrumented.  A blocking select cannot be owned by the simulator.
		hasDefault := false
		for _, cc := range s.Body.List {
			if cl, ok := cc.(*ast.CommClause); ok && cl.Comm == nil {
				hasDefault = true
			}
		}
		if !hasDefault {
			c.unsupported(s, "select statement without a default clause")
			return
		}
		for _, cc := range s.Body.List {
			cl := cc.(*ast.CommClause)
			if cl.Comm != nil {
				// the real select did a channel operation the simulator did not see: tasks
				// parked on that channel must get a chance to retry
				c.insert(fc, cl.Colon+1, "simrt.WakeAll();")
			}
			c.stmtList(fc, cl.Body, fn, res, false)
		}
	case *ast.GoStmt:
		c.goStmt(fc, s, fn, res)
	case *ast.SendStmt:
		// ch <- v   ==>   simrt.ChanSend(ch, v)
		c.replace(fc, s.Pos(), s.Value.Pos(), "simrt.ChanSend("+fc.text(s.Chan)+", ")
		c.insert(fc, s.End(), ")")
		res.ChanOps++
		c.exprs(fc, s.Value, fn, res)
	case *ast.LabeledStmt:
		c.stmt(fc, s.Stmt, fn, res)
	case *ast.DeferStmt:
		c.exprs(fc, s.Call, fn, res)
	case *ast.ExprStmt:
		if u, ok := s.X.(*ast.UnaryExpr); ok && u.Op == token.ARROW {
			// <-ch   ==>   simrt.ChanRecv(ch)
			c.replace(fc, u.Pos(), u.End(), "simrt.ChanRecv("+fc.text(u.X)+")")
			res.ChanOps++
			return
		}
		c.exprs(fc, s.X, fn, res)
	case *ast.AssignStmt:
		if len(s.Lhs) == 2 && len(s.Rhs) == 1 {
			if u, ok := s.Rhs[0].(*ast.UnaryExpr); ok && u.Op == token.ARROW {
				// v, ok := <-ch
				if t, ok := c.chanElem(u.X); ok {
					c.replace(fc, u.Pos(), u.End(), fmt.Sprintf("func() (%s, bool) { __v, __ok := simrt.ChanRecv2(%s); if __v == nil { var __z %s; return __z, __ok }; return __v.(%s), __ok }()", t, fc.text(u.X), t, t))
					res.ChanOps++
					return
				}
				c.unsupported(u, "channel receive of a foreign element type")
				return
			}
		}
		for _, e := range s.Lhs {
			c.exprs(fc, e, fn, res)
		}
		for _, e := range s.Rhs {
			c.exprs(fc, e, fn, res)
		}
	case *ast.ReturnStmt:
		for _, e := range s.Results {
			c.exprs(fc, e, fn, res)
		}
	case *ast.DeclStmt:
		c.exprs(fc, s.Decl, fn, res)
	case *ast.IncDecStmt:
		c.exprs(fc, s.X, fn, res)
	case *ast.BranchStmt, *ast.EmptyStmt:
	default:
		c.exprs(fc, s, fn, res)
	}
}

func (c *ctx) rangeStmt(fc *fileCtx, s *ast.RangeStmt, fn fnCtx, res *Result) {
	c.exprs(fc, s.X, fn, res)
	tv, ok := c.info.Types[s.X]
	if ok {
		if _, isChan := tv.Type.Underlying().(*types.Chan); isChan {
			// for v := range ch {   ==>   for { __rvN, __rokN := simrt.ChanRecv2(ch); if !__rokN { break }; v := <typed __rvN>;
			// (ch is evaluated once by Go; here it must be a plain variable or field)
			if _, simple := s.X.(*ast.Ident); !simple {
				if _, sel := s.X.(*ast.SelectorExpr); !sel {
					c.unsupported(s, "range over a channel expression that is not a plain variable or field")
					return
				}
			}
			t, okT := c.chanElem(s.X)
			if !okT {
				c.unsupported(s, "range over a channel of a foreign element type")
				return
			}
			c.tmpN++
			n := c.tmpN
			var pre strings.Builder
			fmt.Fprintf(&pre, "__rv%d, __rok%d := simrt.ChanRecv2(%s); if !__rok%d { break };", n, n, fc.text(s.X), n)
			if s.Key != nil {
				if id, isID := s.Key.(*ast.Ident); !isID || id.Name != "_" {
					tok := s.Tok.String()
					if tok == ":=" {
						fmt.Fprintf(&pre, "var %s %s; if __rv%d != nil { %s = __rv%d.(%s) };", fc.text(s.Key), t, n, fc.text(s.Key), n, t)
					} else {
						fmt.Fprintf(&pre, "if __rv%d != nil { %s = __rv%d.(%s) } else { var __rz%d %s; %s = __rz%d };", n, fc.text(s.Key), n, t, n, t, fc.text(s.Key), n)
					}
				}
			}
			fmt.Fprintf(&pre, "_ = __rv%d;", n)
			res.ChanOps++
			c.replace(fc, s.For, s.Body.Lbrace, "for ")
			c.loopBody(fc, s.Body, fn, res, pre.String())
			return
		}
	}
	mt, isMap := (*types.Map)(nil), false
	if ok {
		mt, isMap = tv.Type.Underlying().(*types.Map)
	}
	keyIdent := func(e ast.Expr) bool {
		if e == nil {
			return false
		}
		id, ok := e.(*ast.Ident)
		return !ok || id.Name != "_"
	}
	if !isMap || (!keyIdent(s.Key) && !keyIdent(s.Value)) {
		c.loopBody(fc, s.Body, fn, res, "")
		return
	}
	// for k, v := range m {   ==>   for _, __kN := range simrt.MapOrder(m) { k := __kN.(K); v, __okN := m[k]; if !__okN { continue };
	res.MapRanges++
	c.tmpN++
	n := c.tmpN
	kt := types.TypeString(mt.Key(), func(p *types.Package) string {
		if p == c.pkg {
			return ""
		}
		return p.Name()
	})
	if strings.Contains(kt, ".") {
		c.unsupported(s, "range over map with foreign key type "+kt)
		return
	}
	mtext := fc.text(s.X)
	if _, simple := s.X.(*ast.Ident); !simple {
		if _, sel := s.X.(*ast.SelectorExpr); !sel {
			c.unsupported(s, "range over a map expression that is not a plain variable or field")
			return
		}
	}
	tok := s.Tok.String() // := or =
	var pre strings.Builder
	kname := fmt.Sprintf("__k%d", n)
	keyVar := kname + "k"
	if keyIdent(s.Key) {
		keyVar = fc.text(s.Key)
		fmt.Fprintf(&pre, "%s %s %s.(%s);", keyVar, tok, kname, kt)
	} else {
		fmt.Fprintf(&pre, "%s := %s.(%s);", keyVar, kname, kt)
	}
	if keyIdent(s.Value) {
		if tok == ":=" {
			fmt.Fprintf(&pre, "%s, __ok%d := %s[%s]; if !__ok%d { continue };", fc.text(s.Value), n, mtext, keyVar, n)
		} else {
			fmt.Fprintf(&pre, "var __ok%d bool; %s, __ok%d = %s[%s]; if !__ok%d { continue };", n, fc.text(s.Value), n, mtext, keyVar, n)
		}
	} else {
		fmt.Fprintf(&pre, "if _, __ok%d := %s[%s]; !__ok%d { continue };", n, mtext, keyVar, n)
	}
	// replace header "for ... range X" up to the body's brace
	c.replace(fc, s.For, s.Body.Lbrace, fmt.Sprintf("for _, %s := range simrt.MapOrder(%s) ", kname, mtext))
	c.loopBody(fc, s.Body, fn, res, pre.String())
}

// exprs walks an arbitrary node looking for function literals and seam calls.
func (c *ctx) exprs(fc *fileCtx, n ast.Node, fn fnCtx, res *Result) {
	if n == nil {
		return
	}
	ast.Inspect(n, func(x ast.Node) bool {
		switch x := x.(type) {
		case *ast.FuncLit:
			if fc.generated {
				return false
			}
			sub := fnCtx{name: fn.name + ".func", flags: fn.flags &^ flagDeferTarget}
			if c.deferLits[x] {
				sub.flags |= flagInDeferLit
			}
			c.funcBody(fc, x.Body, sub, res)
			return false
		case *ast.UnaryExpr:
			if x.Op == token.ARROW {
				t, ok := c.chanElem(x.X)
				if !ok {
					c.unsupported(x, "channel receive of a foreign element type")
					return false
				}
				c.replace(fc, x.Pos(), x.End(), fmt.Sprintf("func() %s { __v, _ := simrt.ChanRecv2(%s); if __v == nil { var __z %s; return __z }; return __v.(%s) }()", t, fc.text(x.X), t, t))
				res.ChanOps++
				return false
			}
		case *ast.CallExpr:
			if id, ok := x.Fun.(*ast.Ident); ok && id.Name == "close" && len(x.Args) == 1 {
				if _, isBuiltin := c.info.Uses[id].(*types.Builtin); isBuiltin {
					c.replace(fc, x.Pos(), x.Lparen+1, "simrt.ChanClose(")
					res.ChanOps++
				}
			}
			c.call(fc, x, res)
		}
		return true
	})
}

// goStmt turns `go f(a, b)` into a block that evaluates the function value and the arguments
// where the go statement stands (as Go does) and hands a closure to the simulator:
//
//	{ __gfN := f; __gN_0 := a; __gN_1 := b; simrt.Go(func() { __gfN(__gN_0, __gN_1) }) }
func (c *ctx) goStmt(fc *fileCtx, s *ast.GoStmt, fn fnCtx, res *Result) {
	call := s.Call
	if id, ok := call.Fun.(*ast.Ident); ok {
		if _, isBuiltin := c.info.Uses[id].(*types.Builtin); isBuiltin {
			c.unsupported(s, "go statement calling a builtin")
			return
		}
	}
	if tv, ok := c.info.Types[call.Fun]; ok && tv.IsType() {
		c.unsupported(s, "go statement with a conversion")
		return
	}
	c.tmpN++
	n := c.tmpN
	res.GoStmts++
	c.replace(fc, s.Pos(), call.Fun.Pos(), fmt.Sprintf("{ __gf%d := ", n))
	var names []string
	for i := range call.Args {
		names = append(names, fmt.Sprintf("__g%d_%d", n, i))
	}
	callArgs := strings.Join(names, ", ")
	if call.Ellipsis.IsValid() {
		callArgs += "..."
	}
	tail := fmt.Sprintf("; simrt.Go(func() { __gf%d(%s) }) }", n, callArgs)
	if len(call.Args) == 0 {
		c.replace(fc, call.Lparen, call.Rparen+1, tail)
	} else {
		c.replace(fc, call.Lparen, call.Args[0].Pos(), "; "+names[0]+" := ")
		for i := 1; i < len(call.Args); i++ {
			c.replace(fc, call.Args[i-1].End(), call.Args[i].Pos(), "; "+names[i]+" := ")
		}
		c.replace(fc, call.Args[len(call.Args)-1].End(), call.Rparen+1, tail)
	}
	c.exprs(fc, call.Fun, fn, res)
	for _, a := range call.Args {
		c.exprs(fc, a, fn, res)
	}
}

// chanElem renders the element type of the channel expression e as source text valid inside
// the package (foreign named types are not supported).
func (c *ctx) chanElem(e ast.Expr) (string, bool) {
	tv, ok := c.info.Types[e]
	if !ok {
		return "", false
	}
	ch, ok := tv.Type.Underlying().(*types.Chan)
	if !ok {
		return "", false
	}
	foreign := false
	t := types.TypeString(ch.Elem(), func(p *types.Package) string {
		if p == c.pkg {
			return ""
		}
		foreign = true
		return p.Name()
	})
	return t, !foreign
}

func namedFrom(t types.Type, pkgPath, name string) bool {
	if p, ok := t.(*types.Pointer); ok {
		t = p.Elem()
	}
	nt, ok := t.(*types.Named)
	if !ok {
		return false
	}
	o := nt.Obj()
	return o.Pkg() != nil && o.Pkg().Path() == pkgPath && o.Name() == name
}

func (c *ctx) call(fc *fileCtx, call *ast.CallExpr, res *Result) {
	sel, ok := call.Fun.(*ast.SelectorExpr)
	if !ok {
		return
	}
	// package-qualified function?
	if id, ok := sel.X.(*ast.Ident); ok {
		if pn, ok := c.info.Uses[id].(*types.PkgName); ok {
			if pn.Imported().Path() == "time" {
				switch sel.Sel.Name {
				case "Sleep", "After", "Tick", "NewTimer", "NewTicker", "AfterFunc":
					c.unsupported(call, "time."+sel.Sel.Name)
				}
			}
			return
		}
	}
	s := c.info.Selections[sel]
	if s == nil || s.Kind() != types.MethodVal {
		return
	}
	f, ok := s.Obj().(*types.Func)
	if !ok || f.Pkg() == nil || f.Pkg().Path() != "sync" {
		return
	}
	sig := f.Type().(*types.Signature)
	if sig.Recv() == nil {
		return
	}
	rt := sig.Recv().Type()
	// receiver expression as an addressable value: follow the implicit field path
	recvExpr := fc.text(sel.X)
	xt := c.info.Types[sel.X].Type
	isPtr := false
	if _, ok := xt.(*types.Pointer); ok {
		isPtr = true
	}
	if len(s.Index()) > 1 {
		// promoted through embedded fields
		t := xt
		for _, idx := range s.Index()[:len(s.Index())-1] {
			if p, ok := t.Underlying().(*types.Pointer); ok {
				t = p.Elem()
			}
			st, ok := t.Underlying().(*types.Struct)
			if !ok {
				c.unsupported(call, "unexpected embedding")
				return
			}
			fld := st.Field(idx)
			recvExpr += "." + fld.Name()
			t = fld.Type()
			_, isPtr = t.(*types.Pointer)
		}
	}
	addr := "&" + recvExpr
	if isPtr {
		addr = recvExpr
	}
	if _, ok := sel.X.(*ast.Ident); !ok {
		if !isPtr {
			addr = "&(" + recvExpr + ")"
		}
	}
	// Only the part up to and including the opening parenthesis is replaced, so that edits
	// inside the argument list (function literals) never overlap with this one.
	rewrite := func(name string) {
		t := "simrt." + name + "(" + addr
		if len(call.Args) > 0 {
			t += ", "
		}
		c.replace(fc, call.Pos(), call.Lparen+1, t)
	}
	switch {
	case namedFrom(rt, "sync", "Mutex"):
		switch f.Name() {
		case "Lock", "Unlock":
			rewrite(f.Name())
			res.MutexOps++
		case "TryLock":
			rewrite("TryLock")
			res.MutexOps++
		}
	case namedFrom(rt, "sync", "RWMutex"):
		m := map[string]string{"Lock": "RWLock", "Unlock": "RWUnlock", "RLock": "RLock", "RUnlock": "RUnlock", "TryLock": "RWTryLock", "TryRLock": "TryRLock"}
		if r, ok := m[f.Name()]; ok {
			rewrite(r)
			res.MutexOps++
		} else {
			c.unsupported(call, "sync.RWMutex."+f.Name())
		}
	case namedFrom(rt, "sync", "Pool"):
		switch f.Name() {
		case "Get":
			rewrite("PoolGet")
			res.PoolOps++
		case "Put":
			rewrite("PoolPut")
			res.PoolOps++
		}
	case namedFrom(rt, "sync", "Once"):
		if f.Name() == "Do" {
			rewrite("OnceDo")
			res.OnceOps++
		}
	case namedFrom(rt, "sync", "WaitGroup"):
		m := map[string]string{"Add": "WGAdd", "Done": "WGDone", "Wait": "WGWait"}
		if r, ok := m[f.Name()]; ok {
			rewrite(r)
			res.MutexOps++
		} else {
			c.unsupported(call, "sync.WaitGroup."+f.Name())
		}
	case namedFrom(rt, "sync", "Cond"):
		m := map[string]string{"Wait": "CondWait", "Signal": "CondSignal", "Broadcast": "CondBroadcast"}
		if r, ok := m[f.Name()]; ok {
			rewrite(r)
			res.MutexOps++
		} else {
			c.unsupported(call, "sync.Cond."+f.Name())
		}
	}
}
