#!/usr/bin/env python3
"""keepseed.py <srcdir> <k> <seed-id> <property> <result-string>
Stores a confirmed seeded change under /verif/seeded/<seed-id>/ (patch.diff, demo_test.go, notes.md, meta.json)."""
import sys, os, shutil, json, re
src, k, sid, prop, result = sys.argv[1:6]
dst = '/verif/seeded/' + sid
os.makedirs(dst, exist_ok=True)
shutil.copy(f'{src}/m{k}.diff', f'{dst}/patch.diff')
shutil.copy(f'{src}/m{k}_demo_test.go', f'{dst}/demo_test.go.txt')
notes = open(f'{src}/m{k}.md').read()
open(f'{dst}/notes.md', 'w').write(notes)
race = '-race' in notes
meta = {
  "id": sid,
  "breaks_property": prop,
  "origin": "written by an independent sub-agent that was given only the text of the property and a scratch worktree of the repository",
  "what": notes.strip().split('\n')[0][:300],
  "needs_to_manifest": "see notes.md",
  "confirmed_by_me": {
     "how": "tools/seedcheck.sh in a scratch worktree of /repo HEAD: existing suite with the change, demonstration with the change, demonstration without the change",
     "suite_with_change": "pass",
     "demo_with_change": "fail" + (" (go test -race)" if race else ""),
     "demo_without_change": "pass",
  },
  "checks_run": "tools/mutant.sh (git -C /repo apply; quick checks; git -C /repo checkout -- .)",
  "results": result,
}
json.dump(meta, open(f'{dst}/meta.json', 'w'), indent=1)
print('kept', sid)
