#!/bin/sh
# Runs every claimed check at the given tier (default quick); prints one line per check.
tier=${1:-quick}
rc=0
for p in C04 C05 C06 C07 C13 C14 C19; do
  /verif/bin/vsim check $p --tier $tier > /tmp/vsim-$p.log 2>&1
  c=$?
  tail -1 /tmp/vsim-$p.log
  if [ $c -ne 0 ]; then echo "  exit=$c (see /tmp/vsim-$p.log)"; rc=1; fi
done
exit $rc
