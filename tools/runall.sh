#!/bin/sh
# Runs every claimed check at the given tier (default quick); prints one line per check.
here=$(cd "$(dirname "$0")/.." && pwd)
tier=${1:-quick}
rc=0
for p in C04 C05 C06 C07 C13 C14 C19; do
  log=$(mktemp /tmp/runall-$p-XXXX.log)
  "$here/bin/vsim" check $p --tier $tier > $log 2>&1
  c=$?
  tail -1 $log
  if [ $c -ne 0 ]; then echo "  exit=$c"; grep -E "VIOLATION|MACHINERY|violation class" $log | head -5; rc=1; else rm -f $log; fi
done
exit $rc
