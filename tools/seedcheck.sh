#!/bin/sh
# tools/seedcheck.sh <dir-with-m{k}.diff-and-demo> <k>
# Confirms a candidate change in a scratch worktree: the suite passes with it, its
# demonstration fails with it and passes without it.  Prints CONFIRMED or the reason.
dir=$(readlink -f "$1"); k=$2
export GOFLAGS=-mod=mod GOPROXY=off GOSUMDB=off GOTOOLCHAIN=local
wt=$(mktemp -d /tmp/seedwt-XXXX)
rmdir $wt
git -C /repo worktree add --detach $wt HEAD -q || exit 2
trap 'git -C /repo worktree remove --force '$wt' 2>/dev/null; rm -rf '$wt EXIT
cd $wt
if ! git apply $dir/m$k.diff; then echo "m$k: patch does not apply"; exit 1; fi
if ! go test -vet=off -count=1 ./... > $dir/m$k.suite.log 2>&1; then echo "m$k: REJECT existing suite fails with the change"; exit 1; fi
cp $dir/m${k}_demo_test.go $wt/zz_demo_m${k}_test.go
race=""
if grep -qi -- "-race" $dir/m$k.md 2>/dev/null; then race="-race"; fi
if go test -vet=off -count=1 $race -run "TestDemoM$k\$" . > $dir/m$k.demo_with.log 2>&1; then echo "m$k: REJECT demo passes WITH the change"; exit 1; fi
git checkout -q -- . 
git clean -fdq
cp $dir/m${k}_demo_test.go $wt/zz_demo_m${k}_test.go
if ! go test -vet=off -count=1 $race -run "TestDemoM$k\$" . > $dir/m$k.demo_without.log 2>&1; then echo "m$k: REJECT demo fails WITHOUT the change"; exit 1; fi
echo "m$k: CONFIRMED (suite passes with change; demo fails with change$race; demo passes without)"
