#!/bin/sh
# Runs every quick check on every behaviour-preserving refactoring in /verif/controls.
# Any DETECTED or broken line is a false alarm of the machinery.
here=$(cd "$(dirname "$0")/.." && pwd)
rc=0
for d in $here/controls/*.diff; do
  echo "== $(basename $d)"
  out=$($here/tools/mutant.sh $d quick C04 C05 C06 C07 C13 C14 C19 2>&1)
  echo "$out" | grep -v missed
  if echo "$out" | grep -qE "DETECTED|broken|suite: FAIL"; then rc=1; fi
done
exit $rc
