#!/usr/bin/env python3
"""Rewrites the table in DESIGN.md §9 from /verif/seeded/*/meta.json."""
import json, glob, os, re
rows = []
for f in sorted(glob.glob('/verif/seeded/*/meta.json')):
    m = json.load(open(f))
    what = m.get('what', '').replace('|', '\\|').replace('\n', ' ')
    what = re.sub(r'^[#*\s]+', '', what)
    res = m.get('results', '').replace('|', '\\|')
    rows.append('| `%s` | %s | %s | %s |' % (m['id'], m['breaks_property'], what[:160], res))
for d in sorted(glob.glob('/verif/seeded/defect*')):
    if not os.path.exists(d + '/meta.json'):
        rows.append('| `%s` | (repaired defect re-introduced) | reverse patch of the fix commit | reported again by the check that found it (see §3) |' % os.path.basename(d))
table = '| seeded change | written against | what | result |\n|---|---|---|---|\n' + '\n'.join(rows) + '\n'
s = open('/verif/DESIGN.md').read()
s = re.sub(r'<!-- CATCHTABLE:BEGIN -->.*<!-- CATCHTABLE:END -->', '<!-- CATCHTABLE:BEGIN -->\n' + table.replace('\\', '\\\\') + '<!-- CATCHTABLE:END -->', s, flags=re.S)
open('/verif/DESIGN.md', 'w').write(s)
print(len(rows), 'rows')
