#!/bin/sh
# Re-runs every seeded change against the quick check(s) of the property it was written
# against (plus any extra property ids given as arguments) and writes seeded/MATRIX.txt.
here=$(cd "$(dirname "$0")/.." && pwd)
out=$here/seeded/MATRIX.txt
: > $out.tmp
for d in $here/seeded/*/; do
  id=$(basename $d)
  props=$(python3 -c "import json,re;print(' '.join(re.findall(r'C\d\d', json.load(open('$d/meta.json'))['breaks_property'])))")
  [ -n "$props" ] || continue
  [ -f $d/patch.diff ] || { echo "$id: (patch does not apply to the current tree - see meta.json)" | tee -a $out.tmp; continue; }
  res=$($here/tools/mutant.sh $d/patch.diff quick $props "$@" 2>&1 | tr '\n' ' ' | sed 's/(run [0-9]*, tape[^)]*)//g' | cut -c1-400)
  echo "$id: $res" | tee -a $out.tmp
done
mv $out.tmp $out
