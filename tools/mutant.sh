#!/bin/sh
# tools/mutant.sh <patch.diff> <tier> <prop> [<prop>...]
# Applies a patch to /repo, runs the repository's own suite and the named checks, and undoes
# the patch straight afterwards.  Prints one line per check: DETECTED / missed / broken.
patch=$(readlink -f "$1"); tier=$2; shift 2
export GOFLAGS=-mod=mod GOPROXY=off GOSUMDB=off GOTOOLCHAIN=local
if ! git -C /repo diff --quiet; then echo "/repo is not clean"; exit 2; fi
if ! git -C /repo apply "$patch"; then echo "patch does not apply"; exit 2; fi
trap 'git -C /repo checkout -- . ; git -C /repo clean -fdq' EXIT
# (with a time limit: a change that makes the parallel subtests hang must not stall everything)
if (cd /repo && timeout 300 go test -vet=off -count=1 -timeout 240s ./... >/tmp/mutant-suite.log 2>&1); then suite=pass; else suite=FAIL; fi
echo "suite: $suite"
if [ $suite = FAIL ]; then echo "the repository's suite fails (or hangs) with this change: not a valid seeded change; checks not run"; exit 3; fi
for p in "$@"; do
  start=$(date +%s)
  /verif/bin/vsim check $p --tier $tier > /tmp/mutant-$p.log 2>&1
  c=$?
  end=$(date +%s)
  case $c in
    0) echo "$p: missed ($((end-start))s)";;
    1) echo "$p: DETECTED ($((end-start))s) $(grep -m1 '^violation class' /tmp/mutant-$p.log | cut -c1-200)";;
    *) echo "$p: broken exit=$c ($((end-start))s) $(grep -m1 'MACHINERY' /tmp/mutant-$p.log | cut -c1-300)";;
  esac
done
