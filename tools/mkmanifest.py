#!/usr/bin/env python3
"""Regenerates /verif/MANIFEST.json (checks + not_applicable)."""
import json
na = {
"C01":"pure function of (path, document): conformance needs an independent evaluator over inputs; no schedule, history, fault or environment choice can change its truth, so a deterministic simulator has nothing to decide (DESIGN.md §6)",
"C02":"totality of Parse over all strings is a function of (string, config); the only schedule/fault-dependent part (mutex release and state reset after a mid-Parse panic) is decided under C19/C06 (DESIGN.md §6)",
"C03":"totality of evaluation is a function of (path, document); the callback-failure clause is exercised by C14's fault enumeration, the rest is input space, not simulation (DESIGN.md §6)",
"C08":"a relation between three retrievals of fixed inputs; pure, no state/schedule/fault dimension (DESIGN.md §6)",
"C09":"Boolean-algebra relations between retrievals of fixed inputs; pure (DESIGN.md §6)",
"C10":"type-strict comparison is a function of (filter, document, decode mode); pure (DESIGN.md §6)",
"C11":"slice/index arithmetic is a function of four integers; exhaustive enumeration is the right tool, not simulation (DESIGN.md §6)",
"C12":"a relation between two configurations of one fixed call; no state or schedule involved (leak of accessor mode between calls is decided under C19) (DESIGN.md §6)",
"C15":"which failing step an error names is a function of (path, document, failing callbacks); needs an input-space specification oracle (DESIGN.md §6)",
"C16":"addressability/escaping of keys is a function of the key string; pure (DESIGN.md §6)",
"C17":"language equality of two parsers over strings (translation validation of the generated parser); pure (DESIGN.md §6)",
"C18":"a relation between two renderings of one fixed path; pure (DESIGN.md §6)",
"C20":"opaque treatment of non-JSON leaves is a function of (path, document with foreign leaves); pure (DESIGN.md §6)",
}
checks = {
"C04": ("exploration",
  "Seeded simulation: 1-8 caller tasks evaluate generated filter-heavy paths on shared documents through shared parsed functions whose tree state depends on the call history; after every operation of any task every document is deep-compared with its snapshot. Sampling over paths x documents x histories x schedules; a clean batch is evidence, not proof.",
  "deterministic simulation (seeded scheduler, simulated pool/map-order seams, callback faults) with a snapshot invariant checked after every operation",
  "trusts the type-tagged deep printer used for snapshots; documents on which nothing but retrieval happens"),
"C05": ("exploration",
  "Seeded simulation over call histories: each task parses a generated path and calls it on a family of documents built to flip filter outcomes, interleaved with unrelated Parse/Retrieve that recycle pooled buffers (pool policy LIFO/FIFO/random/fresh/drop decided by the simulator), scribbling over and appending to earlier results, overwriting containers that results handed over, editing documents (and undecoded message buffers) in place; every call is compared with a freshly parsed reference on a copy of the document and with every earlier call of the same function on an equal document, earlier result slices are re-read after every later operation; R-order: outcome digests of runs must not depend on what the worker process executed before (one process in sixteen is long-lived).",
  "deterministic simulation over call histories with a reference execution per call (fresh parse, fresh pool, ascending maps), an equal-document memo across the history, and run-order independence of outcome digests",
  "the reference is the same library parsed afresh (implementation-vs-implementation): a defect that affects a fresh Retrieve identically is invisible here"),
"C06": ("exploration",
  "Race-detector build executed under the deterministic scheduler, whose hand-off is invisible to the detector: its happens-before graph holds only the library's own synchronisation, so conflicting accesses of two tasks are reported whatever order the simulator ran them in. 2-16 tasks; shared unevaluated parsed functions, shared documents, Parse under contention with failing paths and injected panics; plus run-alone equality of every outcome, deadlock detection, and a step budget per operation that is a verdict only if the same operation is cheap when it runs alone; cold-start processes in which the first Parse calls of the process race.",
  "deterministic simulation with the Go race detector as invariant monitor, run-alone equality and bounded-progress (relative to the run-alone cost) oracles",
  "Go race detector (shadow-memory window); amd64 TSO for the plain-memory hand-off; race freedom only for operation pairs that were executed together"),
"C07": ("exploration",
  "The simulator owns Go's map iteration order and the contents of recycled key buffers: each (path, document) is evaluated repeatedly under descending/rotated/permuted map orders on independently built equal maps, interleaved with traversals of other maps under LIFO pool reuse; all sequences must equal the ascending/fresh-pool one and, for the families the property spells out, a small reference model (also with a filter function behind the path that fails for some of the values); a document object kept and edited in place by the caller.",
  "deterministic simulation with adversarial map-iteration order and pool reuse; reference model for the spelled-out order",
  "reference model covers name, multi-name, wildcard, index union (with wildcards, Python slices, runs of consecutive indexes), always-true filter, recursive descent"),
"C13": ("exploration",
  "Histories of Set/Get/direct update/re-retrieval executed against the real document and a reference model step by step; locations are derived independently (plain-mode retrieval located by identity, or the reference model of C07 for its path families); user functions that return Accessors of their own or panic half-way; another number of accessors than the path selects in plain mode is a verdict.",
  "deterministic simulation of operation histories against a reference model (document copy + accessor locations)",
  "single caller (accessors are not promised goroutine-safe); sentinels are leaves; positional correspondence between plain and accessor results"),
"C14": ("fault_enumeration",
  "For each generated case (prefix of every step kind + 1-3 functions, accessor mode on/off, 1-4 tasks sharing the function, callbacks yielding/re-entering) ALL subsets of failing callback calls are executed when the fault-free run makes <= 8 calls; every run's per-function call log, result and error kind are compared with a 40-line protocol model applied to what the prefix alone selects.",
  "fault enumeration over user-callback failures inside a deterministic simulation, judged by a call-protocol model",
  "exhaustive over fault subsets per case, cases sampled; prefix values come from the reference model of C07 in a third of the cases and from the library itself otherwise"),
"C19": ("exploration",
  "Histories of Parse/Retrieve calls (1-4 tasks, failing paths in every parser action, injected panics at drawn call sites inside Parse, one Config value reused and modified, Config struct copies, items evaluated through Retrieve, user functions re-entering the calling function, undecoded messages in a reused buffer) where every call's full outcome must equal the outcome of the same call made as the first call of a fresh OS process of the pristine build.",
  "deterministic simulation over Parse histories with crash-point (panic) injection, judged against fresh-process executions of the pristine build",
  "bounded corpus of (path, config) items per invocation; instrumented-vs-pristine agreement checked item by item"),
}
m = {
 "version":1,
 "setup_cmd":"cd /verif && ./setup.sh",
 "hooks":{"guard":"verifsim","enable":"no hook is committed to /repo: every check copies /repo's working tree to a scratch directory and instruments the copy with bin/vsim's go/ast+go/types rewriter (yield points; sync.Mutex, sync.Pool and map-range seams); the copy and its build output are removed when the check ends","baseline_off_cmd":"cd /repo && go test -vet=off -count=1 ./...","source_commits":[],"add_only":True},
 "engines":[{"name":"vsim","path":"/verif/bin/vsim","serves_properties":sorted(checks),"kind_free_text":"deterministic simulation with fault injection: seeded scheduler over real goroutines (one runnable at a time, hand-off invisible to the race detector), simulated sync.Pool / map-order / mutex seams generated into a scratch copy, callback and panic fault injection, choice-tape shrinking and replay"}],
 "checks":[],
 "notes":"see DESIGN.md; replay files are written to /verif/replays; known/fixed findings in /verif/known_findings.json; reproductions of the fixed defects in /verif/findings",
 "not_applicable":[{"property_id":k,"reason":v} for k,v in sorted(na.items())]
}
for pid,(cat,text,tech,note) in sorted(checks.items()):
    m["checks"].append({
      "property_id":pid,
      "quick_cmd":"/verif/bin/vsim check %s --tier quick"%pid,
      "thorough_cmd":"/verif/bin/vsim check %s --tier thorough"%pid,
      "evidence_file":"/verif/evidence/%s.json"%pid,
      "replay_cmd_template":"/verif/bin/vsim check %s --replay {path}"%pid,
      "engine":"vsim",
      "level_claimed":{"category":cat,"text":text,"design_ref":"DESIGN.md §4 "+pid},
      "level_note":note,
      "technique":tech,
    })
json.dump(m, open("/verif/MANIFEST.json","w"), indent=1)
print("ok", len(m["checks"]), "checks")
