package main

import (
	"fmt"

	"verif/simrt"

	"github.com/AsaiYusuke/jsonpath"
)

// genStats (flag -genstats) measures how often generated paths select something.
func genStats(n int) {
	simrt.Seed(12345)
	dg := docGen{}
	hit, parseFail, miss := 0, 0, 0
	shown := 0
	for i := 0; i < n; i++ {
		doc := dg.doc(false)
		p := genPathFor(doc, 0, false, 4, 0)
		r, err := jsonpath.Retrieve(p.Text, doc)
		switch {
		case err == nil && len(r) > 0:
			hit++
		default:
			if _, ok := err.(jsonpath.ErrorInvalidSyntax); ok {
				parseFail++
			} else {
				miss++
			}
			if shown < 25 {
				shown++
				fmt.Printf("%-50s %s\n   %v\n", p.Text, clip(canon(doc), 150), err)
			}
		}
	}
	fmt.Printf("hit=%d miss=%d parsefail=%d\n", hit, miss, parseFail)
}

// modelStats (flag -modelstats) compares the reference model with the library on model paths.
func modelStats(n int) {
	simrt.Seed(777)
	dg := docGen{}
	u := &uniq{}
	mism, shown := 0, 0
	for i := 0; i < n; i++ {
		doc := u.doc(dg)
		p := genModelPath(false)
		r, err := jsonpath.Retrieve(p.Text, doc)
		m := modelEval(p.Model, doc)
		got, want := "ERR", "ERR"
		if err == nil {
			got = canon(r)
		}
		if len(m) > 0 {
			want = canon(m)
		}
		if got != want {
			mism++
			if shown < 12 {
				shown++
				fmt.Printf("%-40s %s\n   lib   %s (%v)\n   model %s\n", p.Text, clip(canon(doc), 200), clip(got, 200), err, clip(want, 200))
			}
		}
	}
	fmt.Printf("mismatches=%d of %d\n", mism, n)
}

// modelPathStats (flag -modelpaths) shows what the aware model-path generator produces for C07-like documents.
func modelPathStats(n int) {
	simrt.Seed(4242)
	dg := docGen{}
	hits, withUnion, adj := 0, 0, 0
	shown := 0
	for i := 0; i < n; i++ {
		var doc interface{}
		if chance(70) {
			doc = dg.orderObject(1 + rn(3))
		} else {
			doc = dg.doc(true)
		}
		p := genModelPathFor(doc, true)
		m := modelEval(p.Model, doc)
		if len(m) > 0 {
			hits++
		}
		for _, st := range p.Model {
			if st.Kind == mIndexUnion {
				withUnion++
				break
			}
		}
		if containsStr(p.Text, "-1,0") {
			adj++
			if shown < 5 {
				shown++
				fmt.Println(p.Text, len(m))
			}
		}
	}
	fmt.Printf("paths=%d selecting=%d with-index-union=%d with[-1,0]=%d\n", n, hits, withUnion, adj)
}
