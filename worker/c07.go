package main

import (
	"fmt"
	"sort"

	"verif/simrt"
)

// C07 — result order is deterministic: sorted keys, index order, written order, pre-order
// (DESIGN.md §4).  The simulator owns the two things the order could leak from: Go's map
// iteration order and the contents of recycled key buffers.

var orderKeys = []string{"a", "b", "c", "B", "aa", "é", "￿", "\U00010000", "10", "9", "", "ab", "A", "_", "z", "~", "0", "1", "-1", "aB", "Z", "é́", "éa"}

func (d docGen) orderObject(depth int) map[string]interface{} {
	n := 2 + rn(11)
	m := map[string]interface{}{}
	for len(m) < n {
		var k string
		if chance(35) {
			k = plainKeys[rn(3)]
		} else {
			k = orderKeys[rn(len(orderKeys))]
		}
		if _, ok := m[k]; ok {
			if rn(4) == 0 {
				break
			}
			continue
		}
		m[k] = d.orderValue(depth - 1)
	}
	return m
}

// seenContainers lets a document store one and the same container under several slots (a
// document that "was built" by sharing values instead of copying them).
var seenContainers []interface{}

// deepChain builds a narrow but deep document: every level is an object (or array) with 1-3
// members, one of which continues downwards.
func (d docGen) deepChain(depth int) interface{} {
	if depth <= 0 {
		return d.leaf()
	}
	if rn(3) == 0 {
		a := make([]interface{}, 1+rn(3))
		for i := range a {
			a[i] = d.leaf()
		}
		if rn(4) == 0 && len(a) > 1 {
			a[rn(len(a))] = map[string]interface{}{"a": d.leaf()}
		}
		a[rn(len(a))] = d.deepChain(depth - 1)
		return a
	}
	m := map[string]interface{}{}
	for i := rn(3); i > 0; i-- {
		m[orderKeys[rn(len(orderKeys))]] = d.leaf()
	}
	if rn(3) == 0 {
		m[plainKeys[rn(3)]] = map[string]interface{}{"b": d.leaf(), "a": d.leaf()}
	}
	m[plainKeys[rn(3)]] = d.deepChain(depth - 1)
	return m
}

func (d docGen) orderValue(depth int) interface{} {
	v := d.orderValue1(depth)
	switch v.(type) {
	case map[string]interface{}, []interface{}:
		seenContainers = append(seenContainers, v)
	}
	return v
}

func (d docGen) orderValue1(depth int) interface{} {
	if depth <= 0 {
		return d.leaf()
	}
	if len(seenContainers) > 0 && chance(12) {
		return seenContainers[rn(len(seenContainers))]
	}
	switch rn(6) {
	case 0, 1:
		return d.leaf()
	case 2, 3, 4:
		return d.orderObject(depth)
	}
	n := rn(5)
	a := make([]interface{}, n)
	for i := range a {
		a[i] = d.orderValue(depth - 1)
	}
	return a
}

// ---- the reference model for the families whose order the property spells out ----

func preorder(n interface{}, out *[]interface{}) {
	switch t := n.(type) {
	case map[string]interface{}:
		*out = append(*out, t)
		keys := make([]string, 0, len(t))
		for k := range t {
			keys = append(keys, k)
		}
		sort.Strings(keys) // ascending byte-wise: the order encoding/json prints
		for _, k := range keys {
			preorder(t[k], out)
		}
	case []interface{}:
		*out = append(*out, t)
		for _, e := range t {
			preorder(e, out)
		}
	}
}

// mslot is one selected location: a member of an object or an element of an array.
type mslot struct {
	m   map[string]interface{}
	a   []interface{}
	key string
	idx int
}

func (s mslot) val() interface{} {
	if s.m != nil {
		return s.m[s.key]
	}
	return s.a[s.idx]
}

func mapSlots(m map[string]interface{}) []mslot {
	keys := make([]string, 0, len(m))
	for k := range m {
		keys = append(keys, k)
	}
	sort.Strings(keys) // ascending byte-wise: the order encoding/json prints
	out := make([]mslot, len(keys))
	for i, k := range keys {
		out[i] = mslot{m: m, key: k}
	}
	return out
}

func arraySlots(a []interface{}) []mslot {
	out := make([]mslot, len(a))
	for i := range a {
		out[i] = mslot{a: a, idx: i}
	}
	return out
}

func modelApply(st MStep, n interface{}) []mslot {
	switch st.Kind {
	case mName:
		if m, ok := n.(map[string]interface{}); ok {
			if _, ok := m[st.Names[0]]; ok {
				return []mslot{{m: m, key: st.Names[0]}}
			}
		}
	case mMulti:
		switch t := n.(type) {
		case map[string]interface{}:
			var out []mslot
			for _, nm := range st.Names {
				if nm == "*" {
					out = append(out, mapSlots(t)...)
				} else if _, ok := t[nm]; ok {
					out = append(out, mslot{m: t, key: nm})
				}
			}
			return out
		case []interface{}:
			for _, nm := range st.Names {
				if nm != "*" {
					return nil
				}
			}
			var out []mslot
			for range st.Names {
				out = append(out, arraySlots(t)...)
			}
			return out
		}
	case mWild, mTrueFilter:
		switch t := n.(type) {
		case map[string]interface{}:
			return mapSlots(t)
		case []interface{}:
			return arraySlots(t)
		}
	case mIndexUnion:
		if m, ok := n.(map[string]interface{}); ok {
			// a bracket holding nothing but wildcards ([*,*]) is a multi-name selector of
			// wildcards: on an object it selects all members once per wildcard
			for j := range st.Idx {
				if j >= len(st.Wild) || !st.Wild[j] {
					return nil
				}
			}
			var out []mslot
			for range st.Idx {
				out = append(out, mapSlots(m)...)
			}
			return out
		}
		if a, ok := n.([]interface{}); ok {
			var out []mslot
			for j, i := range st.Idx {
				if j < len(st.Wild) && st.Wild[j] {
					out = append(out, arraySlots(a)...)
					continue
				}
				if j < len(st.Slice) && st.Slice[j] != nil {
					for _, k := range pythonSlice(st.Slice[j], len(a)) {
						out = append(out, mslot{a: a, idx: k})
					}
					continue
				}
				if i < 0 {
					i += len(a)
				}
				if i >= 0 && i < len(a) {
					out = append(out, mslot{a: a, idx: i})
				}
			}
			return out
		}
	}
	return nil
}

// modelWalk evaluates the modelled steps and returns the selected locations in order.
func modelWalk(steps []MStep, root interface{}) []mslot {
	nodes := []interface{}{root}
	var slots []mslot
	for i := 0; i < len(steps); i++ {
		slots = nil
		if steps[i].Kind == mRecursive {
			i++
			for _, n := range nodes {
				var cs []interface{}
				preorder(n, &cs)
				for _, c := range cs {
					slots = append(slots, modelApply(steps[i], c)...)
				}
			}
		} else {
			for _, n := range nodes {
				slots = append(slots, modelApply(steps[i], n)...)
			}
		}
		nodes = nodes[:0]
		for _, s := range slots {
			nodes = append(nodes, s.val())
		}
	}
	return slots
}

func modelEval(steps []MStep, root interface{}) []interface{} {
	slots := modelWalk(steps, root)
	out := make([]interface{}, len(slots))
	for i, s := range slots {
		out[i] = s.val()
	}
	return out
}

// functions registered in C07's runs (no failing, yielding ones needed here)
const orderFuncs = 1<<fID | 1<<fTag | 1<<fCnt | 1<<fFirst | 1<<fAll

var orderCfg = CfgSpec{Present: true, Funcs: orderFuncs}

func orderPath(doc interface{}, trap bool) *PathSpec {
	if chance(65) {
		if chance(75) {
			return genModelPathFor(doc, trap)
		}
		return genModelPath(trap)
	}
	// any path, but make sure an object traversal is in it
	for i := 0; i < 8; i++ {
		// also with trailing functions: an aggregate sees the members in traversal order
		p := genPathFor(doc, orderFuncs, trap, 4, 2)
		for _, s := range []string{"*", "..", "?("} {
			if containsStr(p.Text, s) {
				return p
			}
		}
	}
	return genModelPath(trap)
}

func containsStr(s, sub string) bool {
	for i := 0; i+len(sub) <= len(s); i++ {
		if s[i:i+len(sub)] == sub {
			return true
		}
	}
	return false
}

func runC07() *RunResult {
	w := &World{prop: "C07"}
	dg := docGen{useNumber: chance(20)}
	t := &Task{id: 0}
	w.tasks = []*Task{t}
	ncase := 1 + rn(2)
	cases := []uint64{}
	type kase struct {
		p         *PathSpec
		doc       interface{}
		solo      string
		soloLog   string
		ref       *ParsedFn   // reference function for documents edited in place
		live      interface{} // one document object that the caller keeps and edits in place
		model     string
		idFn      *ParsedFn // model paths: the path followed by id()
		hasMod    bool
		modelVals []interface{}
		fn        *ParsedFn
	}
	var ks []*kase
	simrt.SetMode(simrt.ModeSolo)
	ref := &Recorder{}
	for c := 0; c < ncase; c++ {
		k := &kase{}
		seenContainers = seenContainers[:0]
		if chance(70) {
			k.doc = dg.orderObject(1 + rn(3))
			if rn(10) == 9 {
				k.doc = dg.deepChain(6 + rn(5)) // nesting of 6 and more levels, narrow
			}
		} else {
			k.doc = dg.doc(true)
		}
		k.p = orderPath(k.doc, true)
		pf := soloParse(k.p, orderCfg)
		if pf.Fn == nil {
			continue
		}
		k.solo, k.soloLog = soloEval(pf, deepCopy(k.doc), [nFuncs]uint64{}, ref)
		if k.p.Model != nil {
			k.hasMod = true
			if r := modelEval(k.p.Model, k.doc); len(r) > 0 {
				k.model = canon(r)
				k.modelVals = r
				if f := soloParse(&PathSpec{Text: k.p.Text + ".id()"}, orderCfg); f.Fn != nil {
					k.idFn = f
				}
			} else {
				k.model = "ERR"
			}
		}
		// the function the task will call repeatedly (own tree: the reference keeps its own)
		k.fn = soloParse(k.p, orderCfg)
		k.ref = soloParse(k.p, orderCfg)
		k.live = deepCopy(k.doc)
		ks = append(ks, k)
		cases = append(cases, fnv(k.p.Text+"|"+canon(k.doc)))
	}
	// other maps, larger and smaller, whose traversal recycles the key buffers
	otherFn := soloParse(&PathSpec{Text: "$..*"}, CfgSpec{})
	simrt.SetMode(simrt.ModeOff)
	res0 := &RunResult{Probes: map[string]int{}, Faults: map[string]int{}}
	if len(ks) == 0 {
		return res0
	}
	reps := 3 + rn(4)
	for r := 0; r < reps; r++ {
		for _, k := range ks {
			k := k
			if chance(50) {
				big := dg.orderObject(2)
				o := &Op{Kind: opCustom, Path: &PathSpec{Text: "$..* (other map)"}}
				o.Do = func(t *Task, o *Op) {
					simrt.SetMapPolicy(simrt.MapMixed)
					_, o.Got = safeCall(otherFn.Fn, big)
					o.Got = clip(o.Got, 60)
				}
				t.ops = append(t.ops, o)
			}
			if k.p.UsesFuncs != 0 && chance(10) {
				// a user function panics in the middle of a traversal and the caller recovers;
				// the evaluation hit is not judged, the ones after it are
				pn := drawPanicsAlways(k.p.UsesFuncs)
				d := deepCopy(k.doc)
				o := &Op{Kind: opCustom, Path: k.p, Panics: pn}
				o.Do = func(t *Task, o *Op) {
					simrt.SetMapPolicy(simrt.MapMixed)
					_, o.Got = safeCall(k.fn.Fn, d)
					o.Got = clip(o.Got, 80)
				}
				t.ops = append(t.ops, o)
			}
			if chance(20) {
				// the caller edits ONE document object in place between evaluations (a member
				// renamed: same member count, same map object; an element replaced) and
				// evaluates on that very object; reference: a fresh copy of the edited document
				editPick := rn(1 << 16)
				o := &Op{Kind: opCustom, Path: k.p}
				o.Do = func(t *Task, o *Op) {
					editInPlace(k.live, editPick)
					simrt.SetMapPolicy(1 + editPick%4)
					_, o.Got = safeCall(k.fn.Fn, k.live)
					got, gotLog := o.Got, t.rec.log()
					if simrt.Aborted() != 0 {
						return
					}
					simrt.SetMode(simrt.ModeSolo)
					exp, expLog := soloEval(k.ref, deepCopy(k.live), [nFuncs]uint64{}, &t.refRec)
					simrt.SetMode(simrt.ModeSim)
					curRec[t.id] = &t.rec
					t.judged++
					t.probe("evaluated-on-a-document-edited-in-place")
					if got != exp || gotLog != expLog {
						t.fail("C07:order-differs-between-evaluations", k.p.Text, fmt.Sprintf("%v on a document object that was edited in place since its last evaluation\n  document now %s\n  got                                   %s\n  on an independently built equal document %s", o, clip(canon(k.live), 400), clip(got, 400), clip(exp, 400)))
					}
				}
				t.ops = append(t.ops, o)
			}
			if k.idFn != nil && len(k.modelVals) >= 2 && chance(25) {
				// a filter function behind the path fails for SOME of the values: the ones that
				// remain keep the order of the path
				mask := uint64(rn(1<<16)) | uint64(rn(1<<16))<<16
				if chance(30) {
					mask = 1 << uint(rn(len(k.modelVals)))
				}
				var fl [nFuncs]uint64
				fl[fID] = mask
				d := deepCopyRev(k.doc)
				pol := 1 + rn(4)
				o := &Op{Kind: opCustom, Path: &PathSpec{Text: k.p.Text + ".id()"}, Faults: fl}
				o.Do = func(t *Task, o *Op) {
					simrt.SetMapPolicy(pol)
					var res []interface{}
					res, o.Got = safeCall(k.idFn.Fn, d)
					if simrt.Aborted() != 0 {
						return
					}
					var want []interface{}
					for i, v := range k.modelVals {
						if i >= 64 || mask&(1<<uint(i)) == 0 {
							want = append(want, v)
						}
					}
					if len(want) == 0 || res == nil {
						return // every call failed (an error is due): nothing to order
					}
					t.judged++
					t.probe("function-failed-for-some-of-the-values")
					if canon(res) == canon(want) {
						return
					}
					if !sameMultiset(res, want) {
						t.probe("selection-differs-from-model(not-judged)")
						return
					}
					t.fail("C07:order-differs-from-specification", o.Path.Text, fmt.Sprintf("%v: id() failed for the calls %#x\n  document %s\n  got       %s\n  specified %s", o, mask, clip(canon(k.doc), 400), clip(o.Got, 400), clip(canon(want), 400)))
				}
				t.ops = append(t.ops, o)
			}
			pol := 1 + rn(4) // never plain ascending: desc, rotate, random, mixed
			var d interface{}
			switch rn(3) {
			case 0:
				d = deepCopy(k.doc)
			case 1:
				d = deepCopyRev(k.doc)
			default:
				// same value, built with shared containers where the original shares them
				d = deepCopyShared(k.doc, map[uintptr]interface{}{})
			}
			useRetrieve := chance(25)
			o := &Op{Kind: opCustom, Path: k.p}
			o.Do = func(t *Task, o *Op) {
				simrt.SetMapPolicy(pol)
				var res []interface{}
				if useRetrieve {
					res, o.Got = safeRetrieve(k.p.Text, d, cfgArgs(orderCfg))
				} else {
					res, o.Got = safeCall(k.fn.Fn, d)
				}
				if simrt.Aborted() != 0 {
					return
				}
				t.judged++
				if o.Got == k.solo && t.rec.log() != k.soloLog {
					t.fail("C07:order-differs-between-evaluations", k.p.Text, fmt.Sprintf("%v (map order policy %d)\n  document %s\n  user functions were called in this order %s\n  with ascending maps                       %s", o, pol, clip(canon(k.doc), 400), clip(t.rec.log(), 400), clip(k.soloLog, 400)))
					return
				}
				if o.Got != k.solo {
					t.fail("C07:order-differs-between-evaluations", k.p.Text, fmt.Sprintf("%v (map order policy %d)\n  document %s\n  got                 %s\n  with ascending maps %s", o, pol, clip(canon(k.doc), 400), clip(o.Got, 400), clip(k.solo, 400)))
					return
				}
				if k.hasMod {
					got := o.Got
					if len(got) > 3 && got[:4] == "ERR<" {
						got = "ERR"
					}
					// C07 is about ORDER: when the library selects other values than the model
					// (a different multiset, or error vs. result) that is C01's business
					if got != k.model && (res == nil || !sameMultiset(res, k.modelVals)) {
						t.probe("selection-differs-from-model(not-judged)")
					} else if got != k.model {
						t.fail("C07:order-differs-from-specification", k.p.Text, fmt.Sprintf("%v\n  document %s\n  got       %s\n  specified %s", o, clip(canon(k.doc), 400), clip(o.Got, 400), clip(k.model, 400)))
					}
				}
			}
			t.ops = append(t.ops, o)
		}
	}
	w.cfg.Strategy = simrt.StratBoundary
	w.cfg.PoolPolicy = []int{simrt.PoolLIFO, simrt.PoolLIFO, simrt.PoolFIFO, simrt.PoolRandom, simrt.PoolMixed}[rn(5)]
	w.cfg.MapPolicy = simrt.MapMixed
	res := w.run()
	res.Cases = cases
	for _, k := range ks {
		if k.hasMod {
			res.Probes["case-with-absolute-order-expectation"]++
		}
	}
	return res
}

// sameMultiset reports whether a and b hold the same DISTINCT values (multiplicities may
// differ).  When the library returns the specified values but in another sequence - another
// order, or a node visited twice - that is an order defect (C07); when it returns other
// values, or none, that is a selection defect (C01) and not judged here.
func sameMultiset(a, b []interface{}) bool {
	x := map[string]bool{}
	y := map[string]bool{}
	for i := range a {
		x[canon(a[i])] = true
	}
	for i := range b {
		y[canon(b[i])] = true
	}
	if len(x) != len(y) {
		return false
	}
	for k := range x {
		if !y[k] {
			return false
		}
	}
	return true
}

// editInPlace renames one member of one object of v (add the new name, delete the old one:
// the member count stays the same) or replaces one array element by a leaf.
func editInPlace(v interface{}, pick int) {
	var objs []map[string]interface{}
	var arrs [][]interface{}
	var walk func(x interface{}, d int)
	walk = func(x interface{}, d int) {
		if d > 6 {
			return
		}
		switch t := x.(type) {
		case map[string]interface{}:
			if len(t) > 0 {
				objs = append(objs, t)
			}
			for _, k := range sortedKeys(t) {
				walk(t[k], d+1)
			}
		case []interface{}:
			if len(t) > 0 {
				arrs = append(arrs, t)
			}
			for _, e := range t {
				walk(e, d+1)
			}
		}
	}
	walk(v, 0)
	if len(objs) > 0 && (pick%3 != 0 || len(arrs) == 0) {
		m := objs[pick%len(objs)]
		keys := sortedKeys(m)
		old := keys[(pick/7)%len(keys)]
		neu := orderKeys[(pick/13)%len(orderKeys)]
		if _, exists := m[neu]; exists || neu == old {
			neu = old + "'"
		}
		m[neu] = m[old]
		delete(m, old)
		return
	}
	if len(arrs) > 0 {
		a := arrs[pick%len(arrs)]
		a[(pick/5)%len(a)] = float64(pick % 9)
	}
}

// pythonSlice returns the indices a Python slice start:end:step selects from a sequence of
// length n (step 0 selects nothing).
func pythonSlice(sl *[3]*int, n int) []int {
	step := 1
	if sl[2] != nil {
		step = *sl[2]
	}
	if step == 0 {
		return nil
	}
	var out []int
	if step > 0 {
		start, end := 0, n
		if sl[0] != nil {
			start = *sl[0]
			if start < 0 {
				start += n
				if start < 0 {
					start = 0
				}
			}
			if start > n {
				start = n
			}
		}
		if sl[1] != nil {
			end = *sl[1]
			if end < 0 {
				end += n
				if end < 0 {
					end = 0
				}
			}
			if end > n {
				end = n
			}
		}
		for i := start; i < end; i += step {
			out = append(out, i)
		}
		return out
	}
	start, end := n-1, -1
	if sl[0] != nil {
		start = *sl[0]
		if start < 0 {
			start += n
			if start < 0 {
				start = -1
			}
		}
		if start >= n {
			start = n - 1
		}
	}
	if sl[1] != nil {
		end = *sl[1]
		if end < 0 {
			end += n
			if end < 0 {
				end = -1
			}
		}
		if end >= n {
			end = n - 1
		}
	}
	for i := start; i > end; i += step {
		out = append(out, i)
	}
	return out
}
