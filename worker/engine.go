package main

import (
	"fmt"
	"os"
	"reflect"
	"runtime"
	"strings"
	"sync"

	"verif/simrt"

	"github.com/AsaiYusuke/jsonpath"
)

// Violation is one property violation found by a run.
type Violation struct {
	Class  string `json:"class"`  // e.g. C05:call-differs-from-fresh-retrieve
	Key    string `json:"key"`    // what identifies the failing input (path / site), for known-findings
	Detail string `json:"detail"` // human-readable
}

// RunResult is what one simulated run reports.
type RunResult struct {
	Violation *Violation
	Stats     simrt.Stats
	Ops       int            // operations executed
	Judged    int            // oracle comparisons made
	Probes    map[string]int // reach probes
	Cases     []uint64       // hashes of distinct non-trivial cases seen
	Sample    []string       // the run written out
	Tainted   bool           // process state may be damaged (abort/diverge): worker must exit
	Faults    map[string]int // fault kinds that fired
	Corpus    []CorpusItem   // C19: calls to re-execute in pristine processes
}

type fnType = func(interface{}) ([]interface{}, error)

// ParsedFn is the result of one Parse.
type ParsedFn struct {
	Path *PathSpec
	Cfg  CfgSpec
	Fn   fnType
	Out  string // canonical outcome of Parse
	// SelfFn: a second function parsed from the same path and Config.  When user functions of a
	// reference evaluation "re-enter the function that is calling them" they call this one:
	// by the property both behave alike, and the reference itself is then never re-entered.
	SelfFn fnType
}

// op kinds
const (
	opParse         = iota // Parse(path,cfg) into own slot
	opCall                 // call own slot on doc
	opCallShared           // call shared function on doc
	opRetrieve             // Retrieve(path, doc, cfg)
	opScribble             // overwrite every element of an earlier result
	opAppend               // append to an earlier result
	opParseFail            // Parse of a failing template
	opParseInject          // Parse hit by an injected panic
	opPublish              // publish own slot to the shared board
	opCallPublished        // call a function somebody published
	opModifyCfg            // modify a Config value after it was used by Parse (C19)
	opParseKept            // Parse with a long-lived Config value (C19)
	opCustom               // property-specific operation (closure)
	opEditDoc              // the caller edits one of its own documents in place (member renamed, element replaced)
)

// Op is one planned operation.
type Op struct {
	Kind      int
	Path      *PathSpec
	Cfg       CfgSpec
	CfgVal    []jsonpath.Config // a Config VALUE shared by several operations/tasks (nil: built per call from Cfg)
	Slot      int
	Doc       int
	Faults    [nFuncs]uint64
	Panics    [nFuncs]uint64 // user functions that panic (fault kind "callback panics")
	LibErr    bool           // failing user functions return library error values
	Inject    int
	Arg       int
	Arg2      int
	RefFn     *ParsedFn
	Expect    string
	ExpectLog string
	HasExpect bool
	Got       string
	GotLog    string
	Done      bool
	Do        func(t *Task, o *Op)
}

func (o *Op) String() string {
	k := [...]string{"Parse", "Call", "CallShared", "Retrieve", "Scribble", "Append", "ParseFail", "ParseInject", "Publish", "CallPublished", "ModifyCfg", "ParseKept", "Eval", "EditDoc"}[o.Kind]
	s := k
	if o.Path != nil {
		s += " path=" + fmt.Sprintf("%q", o.Path.Text) + " " + o.Cfg.String()
	}
	switch o.Kind {
	case opCall, opCallShared, opCallPublished, opPublish:
		s += fmt.Sprintf(" slot=%d", o.Slot)
	}
	switch o.Kind {
	case opCall, opCallShared, opRetrieve, opCallPublished:
		s += fmt.Sprintf(" doc=%d", o.Doc)
	case opScribble, opAppend:
		s += fmt.Sprintf(" result=%d", o.Arg)
	case opParseInject:
		s += fmt.Sprintf(" inject@%d", o.Inject)
	}
	for f := 0; f < nFuncs; f++ {
		if o.Faults[f] != 0 {
			s += fmt.Sprintf(" fail[%s]=%#x", funcNames[f], o.Faults[f])
		}
	}
	if o.Done {
		s += " => " + clip(o.Got, 160)
		if o.GotLog != "" {
			s += " log=" + clip(o.GotLog, 160)
		}
	}
	return s
}

var debugFull = os.Getenv("VSIM_DEBUG_FULL") == "1"

func clip(s string, n int) string {
	if len(s) > n && !debugFull {
		return s[:n] + "…"
	}
	return s
}

// Doc is a document with its pristine snapshot.
type Doc struct {
	Val  interface{}
	Snap string
}

func newDoc(v interface{}) *Doc { return &Doc{Val: v, Snap: canon(v)} }

type keptResult struct {
	res    []interface{}
	canon  string
	op     int
	docIDs map[uintptr]bool // the containers of the caller's documents when the result was returned
}

// sigOf renders a kept result: identity for scalars and containers of the task's documents,
// content for containers that user functions produced.
func (w *World) docIDs(t *Task) map[uintptr]bool {
	docs := t.docs
	if docs == nil {
		docs = w.docs
	}
	return containerIDs(docs)
}

func (w *World) keep(t *Task, res []interface{}, idx int) {
	ids := w.docIDs(t)
	t.results = append(t.results, &keptResult{res: res, canon: resultSig(res, ids), op: idx, docIDs: ids})
}

// Task is one simulated caller.
type Task struct {
	id      int
	ops     []*Op
	fns     []*ParsedFn
	docs    []*Doc // private documents (nil: use the world's shared ones)
	results []*keptResult
	rec     Recorder
	refRec  Recorder
	viol    *Violation
	judged  int
	nops    int
	probes  map[string]int
	faults  map[string]int
	memo    map[uint64][2]string // (function, faults, document as it was) -> outcome of the first such call
	everOwn map[uintptr]bool     // containers that were part of the task's documents before its first in-place edit
}

// World is one run.
type World struct {
	prop   string
	docs   []*Doc
	shared []*ParsedFn
	tasks  []*Task
	cfg    simrt.RunConfig
	board  [simrt.MaxTasks]boardSlot
	race   bool
	// oracle switches
	checkDocsAfterOp bool // C04: compare every reachable document after every operation
	refInline        bool // C05: evaluate the pre-parsed reference on a copy of the current document
	judgeOutcome     bool // compare outcome with the expectation
	selfReentry      bool // user functions may re-enter the parsed function that is calling them
	checkOld         bool // earlier results must not change
	memoEqualDocs    bool // C05: a call must agree with every earlier call of the same function on an equal document
}

type boardSlot struct {
	mu  sync.Mutex // a real program publishes through some synchronisation; this is it
	fn  *ParsedFn
	pad [40]byte
}

func (t *Task) probe(k string) {
	if t.probes == nil {
		t.probes = map[string]int{}
	}
	t.probes[k]++
}

func (t *Task) fault(k string) {
	if t.faults == nil {
		t.faults = map[string]int{}
	}
	t.faults[k]++
}

func (t *Task) fail(class, key, detail string) {
	if t.viol == nil {
		t.viol = &Violation{Class: class, Key: key, Detail: detail}
	}
}

// outcome helpers ------------------------------------------------------------

var debugStack = os.Getenv("VSIM_DEBUG_STACK") == "1"

func panicName(r interface{}) string {
	if r == simrt.AbortPanic {
		return "DIVERGED"
	}
	if debugStack {
		fmt.Fprintf(os.Stderr, "PANIC %v\n%s\n", r, stack())
	}
	if e, ok := r.(error); ok {
		return fmt.Sprintf("PANIC<%T|%s>", r, clip(e.Error(), 120))
	}
	return fmt.Sprintf("PANIC<%T|%v>", r, r)
}

// safeCall evaluates fn on doc and renders the outcome.
func safeCall(fn fnType, doc interface{}) (res []interface{}, out string) {
	defer func() {
		if r := recover(); r != nil {
			res = nil
			out = panicName(r)
		}
	}()
	r, err := fn(doc)
	if err != nil {
		if r != nil {
			return r, "BOTH<" + canon(r) + "|" + canonErr(err) + ">"
		}
		return nil, canonErr(err)
	}
	if r == nil {
		return nil, "NILNIL"
	}
	return r, canon(r)
}

// safeParse parses and renders the outcome of Parse itself.
func safeParse(path string, cfg []jsonpath.Config, inject int) (fn fnType, out string) {
	defer func() {
		simrt.LeaveParse()
		if r := recover(); r != nil {
			fn = nil
			out = panicName(r)
		}
	}()
	simrt.EnterParse(inject)
	f, err := jsonpath.Parse(path, cfg...)
	switch {
	case f != nil && err == nil:
		return f, "FN"
	case f == nil && err != nil:
		return nil, canonErr(err)
	case f == nil && err == nil:
		return nil, "NILNIL"
	}
	return nil, "BOTH<" + canonErr(err) + ">"
}

func safeRetrieve(path string, doc interface{}, cfg []jsonpath.Config) (res []interface{}, out string) {
	defer func() {
		if r := recover(); r != nil {
			res = nil
			out = panicName(r)
		}
	}()
	r, err := jsonpath.Retrieve(path, doc, cfg...)
	if err != nil {
		if r != nil {
			return r, "BOTH<" + canon(r) + "|" + canonErr(err) + ">"
		}
		return nil, canonErr(err)
	}
	if r == nil {
		return nil, "NILNIL"
	}
	return r, canon(r)
}

// soloParse / soloRetrieve are the R-solo reference executions (main goroutine, ModeSolo).
func soloParse(p *PathSpec, c CfgSpec) *ParsedFn {
	simrt.OpStart()
	fn, out := safeParse(p.Text, cfgArgs(c), 0)
	return &ParsedFn{Path: p, Cfg: c, Fn: fn, Out: out}
}

func soloEval(pf *ParsedFn, doc interface{}, faults [nFuncs]uint64, rec *Recorder) (string, string) {
	return soloEvalP(pf, doc, faults, [nFuncs]uint64{}, rec)
}

// soloSelf: the next reference evaluation lets user functions re-enter the evaluated function
// (set only where the judged execution does the same).
var soloSelf bool

func soloEvalP(pf *ParsedFn, doc interface{}, faults, panics [nFuncs]uint64, rec *Recorder) (string, string) {
	if pf.Fn == nil {
		return "PARSE:" + pf.Out, ""
	}
	rec.reset(faults)
	rec.Panics = panics
	if soloSelf {
		rec.Self = pf.Fn
		if pf.SelfFn != nil {
			rec.Self = pf.SelfFn
		}
	}
	s := recSlot()
	old := curRec[s]
	curRec[s] = rec
	simrt.OpStart()
	_, out := safeCall(pf.Fn, doc)
	curRec[s] = old
	return out, rec.log()
}

// docOf returns the document a task's operation refers to.
func (w *World) docOf(t *Task, i int) *Doc {
	if t.docs != nil {
		return t.docs[i%len(t.docs)]
	}
	return w.docs[i%len(w.docs)]
}

func (w *World) checkDocs(t *Task, o *Op) {
	check := func(ds []*Doc, what string) {
		for i, d := range ds {
			if got := canon(d.Val); got != d.Snap {
				key := ""
				if o != nil && o.Path != nil {
					key = o.Path.Text
				}
				t.fail("C04:document-modified", key,
					fmt.Sprintf("%s document %d changed after %v:\n  before %s\n  after  %s", what, i, o, clip(d.Snap, 400), clip(got, 400)))
				return
			}
		}
	}
	check(w.docs, "shared")
	for _, tt := range w.tasks {
		if tt == t || !w.race {
			check(tt.docs, fmt.Sprintf("task %d's", tt.id))
		}
	}
}

func (w *World) checkOldResults(t *Task, o *Op) {
	for i, k := range t.results {
		if got := resultSig(k.res, k.docIDs); got != k.canon {
			t.fail(w.prop+":earlier-result-changed", pathKey(t.ops[k.op]),
				fmt.Sprintf("result %d (returned by op %d: %v) changed after %v:\n  was %s\n  now %s", i, k.op, t.ops[k.op], o, clip(k.canon, 300), clip(got, 300)))
			return
		}
	}
}

func pathKey(o *Op) string {
	if o != nil && o.Path != nil {
		return o.Path.Text
	}
	return ""
}

// debugNoJudge (env VSIM_DEBUG_NOJUDGE=1) disables outcome comparison; used only by the
// machinery's own sensitivity tests to show that the race oracle fires on its own.
var debugNoJudge = os.Getenv("VSIM_DEBUG_NOJUDGE") == "1"

func (w *World) judge(t *Task, o *Op, expect, expectLog string) {
	t.judged++
	if debugNoJudge {
		return
	}
	if o.Got != expect {
		t.fail(w.prop+":outcome-differs-from-run-alone", pathKey(o),
			fmt.Sprintf("%v\n  got      %s\n  expected %s", o, clip(o.Got, 400), clip(expect, 400)))
		return
	}
	if o.GotLog != expectLog {
		t.fail(w.prop+":callback-history-differs-from-run-alone", pathKey(o),
			fmt.Sprintf("%v\n  got log      %s\n  expected log %s", o, clip(o.GotLog, 400), clip(expectLog, 400)))
	}
}

// judgeMemo: the same function, the same planned faults and an equal document give the same
// outcome as the first time, whatever the caller did in between (a reference evaluated in the
// same process shares every process-wide table with the judged call; this comparison does not).
func (w *World) judgeMemo(t *Task, o *Op, pf *ParsedFn, before interface{}) {
	key := fnv(fmt.Sprintf("%p|%v|%v|", pf, o.Faults, o.Panics) + canon(before))
	if t.memo == nil {
		t.memo = map[uint64][2]string{}
	}
	first, seen := t.memo[key]
	if !seen {
		t.memo[key] = [2]string{o.Got, o.GotLog}
		return
	}
	t.probe("call-repeated-on-an-equal-document")
	if first[0] != o.Got || first[1] != o.GotLog {
		t.fail(w.prop+":outcome-differs-from-earlier-call-on-equal-document", pathKey(o),
			fmt.Sprintf("%v\n  got      %s\n  earlier  %s", o, clip(o.Got, 400), clip(first[0], 400)))
	}
}

// scribbleDeep overwrites the containers reachable from a result that are not part of any of
// the caller's documents (values a user function or the library produced): they were returned
// to the caller, who may do with them what it likes.
func scribbleDeep(v interface{}, own map[uintptr]bool, seen map[uintptr]bool, depth int) int {
	if depth > 6 {
		return 0
	}
	n := 0
	switch c := v.(type) {
	case map[string]interface{}:
		if c == nil {
			return 0
		}
		id := reflect.ValueOf(c).Pointer()
		if own[id] || seen[id] {
			return 0
		}
		seen[id] = true
		for _, k := range sortedKeys(c) {
			n += scribbleDeep(c[k], own, seen, depth+1)
			c[k] = "SCRIBBLED"
		}
		c["scribbled"] = true
		n++
	case []interface{}:
		if len(c) == 0 {
			return 0
		}
		id := reflect.ValueOf(c).Pointer()
		if own[id] || seen[id] {
			return 0
		}
		seen[id] = true
		for i := range c {
			n += scribbleDeep(c[i], own, seen, depth+1)
			c[i] = "SCRIBBLED"
		}
		n++
	}
	return n
}

// allContainerIDs is containerIDs without a depth limit, plus every element slot of arrays
// (a sub-slice of a document's array is the document's memory too).
func allContainerIDs(docs []*Doc) map[uintptr]bool {
	ids := map[uintptr]bool{}
	var walk func(v interface{})
	walk = func(v interface{}) {
		switch c := v.(type) {
		case map[string]interface{}:
			if c != nil {
				ids[reflect.ValueOf(c).Pointer()] = true
			}
			for _, e := range c {
				walk(e)
			}
		case []interface{}:
			for i := range c {
				ids[reflect.ValueOf(c[i:]).Pointer()] = true
				walk(c[i])
			}
		}
	}
	for _, d := range docs {
		walk(d.Val)
	}
	return ids
}

// execOp runs one operation of a task (task context, ModeSim).
func (w *World) execOp(t *Task, idx int) {
	o := t.ops[idx]
	simrt.OpStart()
	simrt.SetLabel(opLabel(o.Kind))
	t.nops++
	curRec[t.id] = &t.rec
	t.rec.reset(o.Faults)
	t.rec.Panics = o.Panics
	t.rec.LibErr = o.LibErr
	evalOn := func(pf *ParsedFn, judge bool) {
		d := w.docOf(t, o.Doc)
		var before interface{}
		if w.refInline {
			before = deepCopy(d.Val)
		}
		if pf == nil || pf.Fn == nil {
			o.Got = "NOFN"
			if pf != nil {
				o.Got = "PARSE:" + pf.Out
			}
			o.Done = true
			return
		}
		if w.selfReentry {
			t.rec.Self = pf.Fn
		}
		res, out := safeCall(pf.Fn, d.Val)
		o.Got, o.GotLog, o.Done = out, t.rec.log(), true
		if simrt.Aborted() != 0 {
			return
		}
		if res != nil && w.checkOld {
			w.keep(t, res, idx)
		}
		if !judge || !w.judgeOutcome {
			return
		}
		if w.refInline && o.RefFn != nil {
			simrt.SetMode(simrt.ModeSolo)
			soloSelf = w.selfReentry
			exp, explog := soloEvalP(o.RefFn, before, o.Faults, o.Panics, &t.refRec)
			soloSelf = false
			simrt.SetMode(simrt.ModeSim)
			w.judge(t, o, exp, explog)
			if w.memoEqualDocs && t.viol == nil {
				w.judgeMemo(t, o, pf, before)
			}
		} else if o.HasExpect {
			w.judge(t, o, o.Expect, o.ExpectLog)
		}
	}
	switch o.Kind {
	case opParse, opParseFail, opParseKept:
		cv := o.CfgVal
		if cv == nil {
			cv = cfgArgs(o.Cfg)
		} else {
			t.probe("parse-with-a-config-value-shared-between-tasks")
		}
		fn, out := safeParse(o.Path.Text, cv, 0)
		pf := &ParsedFn{Path: o.Path, Cfg: o.Cfg, Fn: fn, Out: out}
		for len(t.fns) <= o.Slot {
			t.fns = append(t.fns, nil)
		}
		t.fns[o.Slot] = pf
		o.Got, o.Done = out, true
		if w.judgeOutcome && o.HasExpect && simrt.Aborted() == 0 {
			w.judge(t, o, o.Expect, "")
		}
	case opParseInject:
		fn, out := safeParse(o.Path.Text, cfgArgs(o.Cfg), o.Inject)
		_ = fn
		o.Got, o.Done = out, true // not judged: only what follows is
		if simrt.InjectionFired() {
			t.fault("injected-panic-in-parse")
			if o.Inject&1 != 0 {
				t.fault("injected-panic-with-non-error-value")
			}
		}
	case opCall:
		var pf *ParsedFn
		if o.Slot < len(t.fns) {
			pf = t.fns[o.Slot]
		}
		evalOn(pf, true)
	case opCallShared:
		evalOn(w.shared[o.Slot%len(w.shared)], true)
	case opCallPublished:
		b := &w.board[o.Slot%len(w.tasks)]
		b.mu.Lock()
		pf := b.fn
		b.mu.Unlock()
		if pf == nil {
			o.Got, o.Done = "NOTHING-PUBLISHED", true
			break
		}
		t.probe("called-published-function")
		d := w.docOf(t, o.Doc)
		_, out := safeCall(pf.Fn, d.Val)
		o.Got, o.GotLog, o.Done = out, t.rec.log(), true
		if w.judgeOutcome && o.HasExpect && simrt.Aborted() == 0 {
			w.judge(t, o, o.Expect, o.ExpectLog)
		}
	case opPublish:
		if o.Slot < len(t.fns) && t.fns[o.Slot] != nil && t.fns[o.Slot].Fn != nil {
			b := &w.board[t.id]
			b.mu.Lock()
			b.fn = t.fns[o.Slot]
			b.mu.Unlock()
		}
		o.Got, o.Done = "ok", true
	case opRetrieve:
		d := w.docOf(t, o.Doc)
		var before interface{}
		if w.refInline {
			before = deepCopy(d.Val)
		}
		res, out := safeRetrieve(o.Path.Text, d.Val, cfgArgs(o.Cfg))
		o.Got, o.GotLog, o.Done = out, t.rec.log(), true
		if res != nil && w.checkOld && simrt.Aborted() == 0 {
			w.keep(t, res, idx)
		}
		if w.judgeOutcome && simrt.Aborted() == 0 {
			if w.refInline && o.RefFn != nil {
				simrt.SetMode(simrt.ModeSolo)
				exp, explog := soloEvalP(o.RefFn, before, o.Faults, o.Panics, &t.refRec)
				simrt.SetMode(simrt.ModeSim)
				if o.RefFn.Fn == nil {
					exp = o.RefFn.Out
				}
				w.judge(t, o, exp, explog)
			} else if o.HasExpect {
				w.judge(t, o, o.Expect, o.ExpectLog)
			}
		}
	case opCustom:
		o.Do(t, o)
		o.Done = true
	case opEditDoc:
		if t.docs != nil {
			d := t.docs[o.Doc%len(t.docs)]
			if t.everOwn == nil {
				// an edit may detach a subtree that earlier results still refer to: it stays
				// the caller's memory, shared by those results, and is never "handed over"
				t.everOwn = allContainerIDs(t.docs)
			}
			if o.Arg%4 != 1 || !editRawInPlace(d.Val, o.Arg) {
				editInPlace(d.Val, o.Arg)
			} else {
				t.probe("caller-overwrote-bytes-of-an-undecoded-part-in-place")
			}
			d.Snap = canon(d.Val) // the caller's own edit is the new baseline
			t.probe("caller-edited-its-document-in-place")
		}
		o.Got, o.Done = "ok", true
	case opScribble:
		if len(t.results) > 0 {
			k := t.results[o.Arg%len(t.results)]
			if o.Arg2 != 0 && t.docs != nil {
				own := allContainerIDs(t.docs)
				for id := range t.everOwn {
					own[id] = true
				}
				seen := map[uintptr]bool{}
				n := 0
				for i := range k.res {
					n += scribbleDeep(k.res[i], own, seen, 0)
				}
				if n > 0 {
					t.probe("caller-overwrote-containers-a-result-handed-to-it")
				}
			}
			for i := range k.res {
				k.res[i] = fmt.Sprintf("SCRIBBLE-%d-%d", t.id, i)
			}
			k.canon = resultSig(k.res, k.docIDs)
			t.probe("caller-scribbled-over-earlier-result")
		}
		o.Got, o.Done = "ok", true
	case opAppend:
		if len(t.results) > 0 {
			k := t.results[o.Arg%len(t.results)]
			k.res = append(k.res, "APPENDED", "APPENDED2")
			k.canon = resultSig(k.res, k.docIDs)
			t.probe("caller-appended-to-earlier-result")
		}
		o.Got, o.Done = "ok", true
	}
	curRec[t.id] = nil
	if simrt.Aborted() != 0 {
		return
	}
	switch o.Kind {
	case opCall, opCallShared, opRetrieve, opCallPublished:
		if o.Path != nil && o.Path.BothMissingEQ {
			t.probe("evaluated-eq-between-two-paths")
		}
		if o.Path != nil && o.Path.LiteralLeft {
			t.probe("evaluated-comparison-with-literal-or-root-path-on-the-left")
		}
		if strings.HasPrefix(o.Got, "[") {
			t.probe("evaluation-returned-values")
		} else {
			t.probe("evaluation-returned-error")
		}
	}
	// outcomes are part of the run's event digest (R-order compares digests across process orders)
	simrt.Mix(fnv(fmt.Sprintf("%d/%d|%s|%s", t.id, idx, o.Got, o.GotLog)))
	if len(t.rec.Calls) > 0 {
		for _, c := range t.rec.Calls {
			if c.Fail {
				t.fault("callback-returned-error")
				break
			}
		}
	}
	if t.rec.Nested > 0 {
		t.fault("callback-reentered-library")
	}
	if t.rec.Panicked > 0 {
		t.fault("callback-panicked")
	}
	if w.checkOld {
		w.checkOldResults(t, o)
	}
	if w.checkDocsAfterOp {
		w.checkDocs(t, o)
	}
}

func (w *World) taskMain(t *Task, wg *sync.WaitGroup) {
	defer wg.Done()
	defer func() {
		r := recover()
		if r != nil && r != simrt.AbortPanic {
			t.fail(w.prop+":harness-panic", "", fmt.Sprintf("task %d: %v\n%s", t.id, r, stack()))
		}
		curRec[t.id] = nil
		simrt.TaskDone(t.id)
	}()
	simrt.TaskEnter(t.id)
	for i := range t.ops {
		if simrt.Aborted() != 0 || t.viol != nil {
			break
		}
		w.execOp(t, i)
		if simrt.Aborted() != 0 {
			break
		}
		simrt.OpBoundary()
	}
}

func stack() string {
	b := make([]byte, 4096)
	return string(b[:runtime.Stack(b, false)])
}

// run executes the concurrent phase and collects the result.
var debugPlan = os.Getenv("VSIM_DEBUG_PLAN") == "1"

func (w *World) run() *RunResult {
	if debugPlan {
		for _, t := range w.tasks {
			for i, o := range t.ops {
				fmt.Fprintf(os.Stderr, "PLAN task%d op%d %v\n", t.id, i, o)
			}
			for i, d := range t.docs {
				fmt.Fprintf(os.Stderr, "PLAN task%d doc%d len(canon)=%d %s\n", t.id, i, len(d.Snap), clip(d.Snap, 200))
			}
		}
		for i, d := range w.docs {
			fmt.Fprintf(os.Stderr, "PLAN shared doc%d len(canon)=%d %s\n", i, len(d.Snap), clip(d.Snap, 200))
		}
	}
	var wg sync.WaitGroup
	w.cfg.Tasks = len(w.tasks)
	simrt.BeginRun(w.cfg)
	for _, t := range w.tasks {
		wg.Add(1)
		go w.taskMain(t, &wg)
	}
	simrt.WaitRunEnd() // harness tasks and goroutines the library started itself
	wg.Wait()
	st := simrt.EndRun()
	res := &RunResult{Stats: st, Probes: map[string]int{}, Faults: map[string]int{}}
	for _, t := range w.tasks {
		res.Ops += t.nops
		res.Judged += t.judged
		for k, v := range t.probes {
			res.Probes[k] += v
		}
		for k, v := range t.faults {
			res.Faults[k] += v
		}
		if t.viol != nil && res.Violation == nil {
			res.Violation = t.viol
		}
	}
	if st.Abort != 0 {
		res.Tainted = true
	}
	if st.Abort == simrt.AbortSpawn && res.Violation == nil {
		res.Violation = &Violation{Class: w.prop + ":goroutine-started-by-the-library-panicked", Key: w.lastParsePath(),
			Detail: "a goroutine started by the library panicked; a real program would have crashed"}
	}
	failedParse := false
	for _, t := range w.tasks {
		for _, o := range t.ops {
			if o.Done && (o.Kind == opParse || o.Kind == opParseFail || o.Kind == opParseInject || o.Kind == opRetrieve || o.Kind == opCustom) &&
				(strings.HasPrefix(o.Got, "ERR<jsonpath.ErrorInvalid") || strings.HasPrefix(o.Got, "ERR<jsonpath.ErrorFunctionNotFound") || strings.HasPrefix(o.Got, "ERR<jsonpath.ErrorNotSupported") || strings.Contains(o.Got, "InjectedPanic")) {
				failedParse = true
			}
		}
	}
	if failedParse && st.Blocked > 0 {
		res.Probes["parse-failed-in-a-run-with-tasks-waiting-on-the-parse-mutex"]++
	}
	if st.Blocked > 0 {
		res.Probes["task-blocked-on-mutex"] += int(st.Blocked)
		res.Faults["lock-contention"] += int(st.Blocked)
	}
	for i := 0; i < 8; i++ {
		for j := i; j < 8; j++ {
			n := st.Overlap[i][j]
			if i != j {
				n += st.Overlap[j][i]
			}
			if n > 0 && i > 0 {
				res.Probes["overlap:"+labelNames[i]+"||"+labelNames[j]] += int(n)
			}
		}
	}
	if st.Handover > 0 {
		res.Probes["pool-buffer-handed-between-tasks"] += int(st.Handover)
		res.Faults["pool-handover"] += int(st.Handover)
	}
	if st.NestedGet > 0 {
		res.Probes["nested-pool-get"] += int(st.NestedGet)
	}
	if st.PoolFresh > 0 {
		res.Faults["pool-returned-fresh-object"] += int(st.PoolFresh)
	}
	if st.PoolDrop > 0 {
		res.Faults["pool-dropped-object"] += int(st.PoolDrop)
	}
	if st.MapNonAsc > 0 {
		res.Probes["map-iterated-non-ascending"] += int(st.MapNonAsc)
		res.Faults["adversarial-map-order"] += int(st.MapNonAsc)
	}
	if st.Injected > 0 {
		res.Faults["injected-panic"] += int(st.Injected)
		if st.InjectedInExec > 0 {
			res.Probes["injected-panic-inside-Execute"] += int(st.InjectedInExec)
		}
	}
	// sample: the operations as executed
	for _, t := range w.tasks {
		for i, o := range t.ops {
			if o.Done {
				res.Sample = append(res.Sample, fmt.Sprintf("task%d op%d %v", t.id, i, o))
			}
		}
	}
	return res
}

// deadlock / budget verdicts are property-specific; helper for those who claim progress.
func (w *World) progressVerdict(res *RunResult) {
	if res.Violation != nil {
		return
	}
	switch res.Stats.Abort {
	case simrt.AbortDeadlock:
		res.Violation = &Violation{Class: w.prop + ":deadlock", Key: w.lastParsePath(),
			Detail: fmt.Sprintf("all tasks blocked (task %d waits for a mutex nobody will release)", res.Stats.AbortWho)}
	case simrt.AbortBudget:
		// "No progress" is a statement relative to what the operation costs when it runs
		// alone: it is re-executed as a reference with an eighth of the budget.  Only an
		// operation that completes within that and nevertheless used the whole budget up
		// under the schedule is a verdict; an operation that is heavy by itself (a quadratic
		// filter over a large document) is not judged.
		solo, completed, what := w.soloCost(res.Stats.AbortWho)
		if completed && solo*8 < simrt.OpBudget() {
			res.Violation = &Violation{Class: w.prop + ":no-progress-within-step-budget", Key: w.lastParsePath(),
				Detail: fmt.Sprintf("task %d exceeded the per-operation step budget in %s, which takes %d steps when it runs alone", res.Stats.AbortWho, what, solo)}
		} else {
			res.Probes["heavy-operation-exceeded-step-budget(not-judged)"]++
		}
	}
}

// soloCost re-executes the operation a task was in when the run was aborted as a reference
// (solo mode, own copy of the document, fresh Recorder with the same plan).
func (w *World) soloCost(who int) (steps int64, completed bool, what string) {
	if who < 0 || who >= len(w.tasks) {
		return 0, false, ""
	}
	t := w.tasks[who]
	// the aborted operation: the one whose outcome is the abort itself (an evaluation records
	// its outcome even then), else the first one that did not finish
	var o *Op
	for _, c := range t.ops {
		if c.Done && strings.Contains(c.Got, "DIVERGED") {
			o = c
			break
		}
		if !c.Done {
			o = c
			break
		}
	}
	if o == nil || o.Path == nil {
		return 0, false, ""
	}
	what = fmt.Sprintf("%v", o)
	simrt.SetMode(simrt.ModeSolo)
	old := simrt.SetOpBudget(simrt.OpBudget() / 8)
	defer func() {
		simrt.SetOpBudget(old)
		simrt.SetMode(simrt.ModeOff)
	}()
	rec := &Recorder{}
	out := ""
	switch o.Kind {
	case opCall, opCallShared, opCallPublished, opRetrieve:
		pf := soloParse(o.Path, o.Cfg)
		steps = simrt.SoloSteps()
		if pf.Fn == nil {
			return steps, !strings.Contains(pf.Out, "DIVERGED"), what
		}
		out, _ = soloEvalP(pf, deepCopy(w.docOf(t, o.Doc).Val), o.Faults, o.Panics, rec)
		steps += simrt.SoloSteps()
	default:
		pf := soloParse(o.Path, o.Cfg)
		out = pf.Out
		steps = simrt.SoloSteps()
	}
	return steps, !strings.Contains(out, "DIVERGED") && steps <= old/8, what
}

func (w *World) lastParsePath() string {
	for _, t := range w.tasks {
		for _, o := range t.ops {
			if !o.Done && o.Path != nil {
				return o.Path.Text
			}
		}
	}
	return ""
}

// drawSchedule draws strategy, pool and map policies for a run with n tasks.
func drawSchedule(n int, c *simrt.RunConfig) {
	c.PoolPolicy = rn(5)
	c.MapPolicy = rn(5)
	if chance(20) {
		c.PoolDrop = 10 + rn(40)
	}
	if n <= 1 {
		c.Strategy = simrt.StratBoundary
		return
	}
	switch rn(8) {
	case 0:
		c.Strategy = simrt.StratBoundary
	case 1, 2, 3:
		c.Strategy = simrt.StratRandom
		c.GapMean = []int{2, 8, 32, 128}[rn(4)]
	case 4, 5:
		c.Strategy = simrt.StratSeam
		c.TargetSeam = rn(simrt.NumSeams - 1) // all seam classes but task start
		c.GapMean = []int{32, 128, 512}[rn(3)]
	case 6:
		c.Strategy = simrt.StratFunc
		if nf := simrt.NumFuncs(); nf > 0 {
			c.TargetFunc = rn(nf)
		}
		c.GapMean = []int{32, 128, 512}[rn(3)]
	default:
		c.Strategy = simrt.StratPCT
		c.PCTDepth = 1 + rn(3)
		c.PCTSteps = int64(2000 + rn(8000))
	}
}

func drawFaults(usable uint32) (f [nFuncs]uint64) {
	switch rn(6) {
	case 0, 1, 2:
		return
	case 3: // every call of one function fails
		for k := 0; k < nFuncs; k++ {
			if usable&(1<<uint(k)) != 0 && chance(50) {
				f[k] = ^uint64(0)
			}
		}
	case 4: // a single call fails
		k := rn(nFuncs)
		f[k] = 1 << uint(rn(6))
	default: // random subsets
		for k := 0; k < nFuncs; k++ {
			if usable&(1<<uint(k)) != 0 {
				f[k] = uint64(rn(256))
			}
		}
	}
	return
}

// drawPanics makes (rarely) one call of one user function panic.
func drawPanics(usable uint32) (p [nFuncs]uint64) {
	if usable == 0 || !chance(12) {
		return
	}
	var fs []int
	for k := 0; k < nFuncs; k++ {
		if usable&(1<<uint(k)) != 0 {
			fs = append(fs, k)
		}
	}
	p[fs[rn(len(fs))]] = 1 << uint(rn(5))
	return
}

var labelNames = [8]string{"idle", "Parse", "call-shared-function", "call-own-function", "Retrieve", "failing/injected-Parse", "property-specific-op", "caller-side-op"}

func opLabel(k int) int {
	switch k {
	case opParse, opParseKept:
		return 1
	case opCallShared, opCallPublished:
		return 2
	case opCall:
		return 3
	case opRetrieve:
		return 4
	case opParseFail, opParseInject:
		return 5
	case opCustom:
		return 6
	}
	return 7
}

// drawPanicsAlways makes one call (the 1st-5th) of one used function panic.
func drawPanicsAlways(usable uint32) (p [nFuncs]uint64) {
	var fs []int
	for k := 0; k < nFuncs; k++ {
		if usable&(1<<uint(k)) != 0 {
			fs = append(fs, k)
		}
	}
	if len(fs) == 0 {
		return
	}
	p[fs[rn(len(fs))]] = 1 << uint(rn(5))
	return
}
