package main

import (
	"encoding/json"
	"fmt"
	"math"
	"strconv"
	"strings"

	"verif/simrt"
)

// All randomness comes from the simulator's tape.  A draw of 0 is always the "simplest"
// alternative, because an exhausted replay tape yields zeros.

func rn(n int) int { return simrt.Draw(n) }

// wide: every third run of the thorough tier draws from wider ranges (more tasks, longer
// histories, longer paths with more functions).  Set by main per run index, never during
// the construction of the C19 corpus (fresh reference processes build the same corpus).
var wide bool

func widen(n int) int {
	if wide {
		return 2 * n
	}
	return n
}

// chance is true with roughly pct percent probability; a zero draw gives false.
func chance(pct int) bool { return rn(100) >= 100-pct }

func pick(ss []string) string { return ss[rn(len(ss))] }

// ---------------------------------------------------------------------------
// documents

// keys that sort differently by byte, rune, UTF-16 unit, length, case and numeric value
var trapKeys = []string{"a", "b", "c", "B", "aa", "é", "￿", "\U00010000", "10", "9", ""}
var plainKeys = []string{"a", "b", "c", "x", "list"}

type docGen struct{ useNumber bool }

func (d docGen) num(x float64) interface{} {
	if d.useNumber {
		return json.Number(strconv.FormatFloat(x, 'g', -1, 64))
	}
	return x
}

var numPalette = []float64{1, 0, 2, 10, -1, 1.5}

// rare numeric values: negative zero, beyond 2^53, huge, tiny
var rareNums = []float64{math.Copysign(0, -1), 9007199254740993, 1e21, 1e-7, -1e308, 3}
var strPalette = []string{"a", "b", "1", "x", ""}

type foreignStruct struct{ A int }

// foreign returns a value that encoding/json never produces for interface{}: the library must
// treat it as an opaque leaf (and must not write it back changed).
func foreign() interface{} {
	switch rn(9) {
	case 0:
		return 3
	case 1:
		return []string{"a", "b"}
	case 2:
		return []float64{1, 2.5}
	case 3:
		return []int{1, 2, 3}
	case 4:
		return map[string]int{"a": 1}
	case 5:
		return []map[string]interface{}{{"a": 1.0}, {"a": 2.0}}
	case 6:
		return foreignStruct{A: 1}
	case 7:
		if rn(2) == 0 {
			return json.RawMessage(`{"a":1,"b":[1,2]}`)
		}
		return []byte(`[1,2,3]`)
	}
	return float32(1.5)
}

func (d docGen) leaf() interface{} {
	if rn(40) == 39 {
		return d.num(rareNums[rn(len(rareNums))])
	}
	if rn(60) == 59 {
		return foreign()
	}
	switch rn(8) {
	case 0, 1, 2:
		return d.num(numPalette[rn(len(numPalette))])
	case 3, 4:
		return pick(strPalette)
	case 5:
		return true
	case 6:
		return false
	}
	return nil
}

func (d docGen) key(trap bool) string {
	if trap && chance(50) {
		return pick(trapKeys)
	}
	return plainKeys[rn(3)]
}

func (d docGen) value(depth int, trap bool) interface{} {
	if depth <= 0 {
		return d.leaf()
	}
	switch rn(5) {
	case 0, 1:
		return d.leaf()
	case 2, 3:
		return d.object(depth-1, trap, rn(5))
	}
	return d.array(depth-1, trap, rn(5))
}

func (d docGen) object(depth int, trap bool, n int) map[string]interface{} {
	if rn(60) == 59 {
		return map[string]interface{}(nil) // typed nil object
	}
	m := map[string]interface{}{}
	for i := 0; i < n; i++ {
		m[d.key(trap)] = d.value(depth, trap)
	}
	return m
}

func (d docGen) array(depth int, trap bool, n int) []interface{} {
	if rn(60) == 59 {
		return []interface{}(nil) // a Go-built document may hold a typed nil array
	}
	a := make([]interface{}, n)
	for i := range a {
		a[i] = d.value(depth, trap)
	}
	switch rn(8) {
	case 6:
		// spare capacity behind the array, as encoding/json leaves it (it grows by append)
		b := make([]interface{}, n, n+1+rn(8))
		copy(b, a)
		return b
	case 7:
		// a window of a larger backing array whose other windows are siblings in the document
		if n >= 2 {
			k := 1 + rn(n-1)
			for i := k; i < n; i++ {
				if _, isArr := a[i].([]interface{}); isArr {
					return a
				}
			}
			// a[0:k] holds as element k-1 ... keep it simple: first element becomes the tail window
			tail := a[k:n:n]
			head := a[0:k] // cap reaches over the tail
			return []interface{}{head, tail}
		}
	}
	return a
}

// member builds an object over a,b,c whose fields are mostly scalars (filters look at them).
func (d docGen) member() interface{} {
	switch rn(8) {
	case 0:
		return d.leaf()
	case 1:
		return d.array(1, false, rn(4))
	}
	m := map[string]interface{}{}
	for _, k := range []string{"a", "b", "c"} {
		switch rn(4) {
		case 0:
		case 1, 2:
			m[k] = d.leaf()
		default:
			m[k] = d.value(1, false)
		}
	}
	return m
}

// sizes around powers of two: thresholds in buffer management ("more than 16", "cap > 128")
// are only reached by documents of those sizes
var bigSizes = []int{15, 16, 17, 31, 32, 33, 64, 65, 127, 128, 129, 130, 200, 256, 257, 300, 513}

// bigDoc builds a wide document: an array (or an object holding one) with many elements.
func (d docGen) bigDoc() interface{} {
	n := bigSizes[rn(len(bigSizes))]
	if rn(12) == 11 {
		n = []int{1023, 1024, 1025, 2049}[rn(4)] // thresholds such as "1024 or more members"
	}
	a := make([]interface{}, n)
	kind := rn(3)
	for i := range a {
		switch kind {
		case 0:
			a[i] = d.num(float64(i % 7))
		case 1:
			a[i] = map[string]interface{}{"a": d.num(float64(i % 5)), "b": pick(strPalette)}
		default:
			a[i] = d.leaf()
		}
	}
	if chance(25) {
		// a WIDE OBJECT with the same members (names that sort differently from their
		// insertion order), bare or below a name
		m := make(map[string]interface{}, n)
		for i := range a {
			m["k"+strconv.Itoa((i*7919)%n)+pick([]string{"", "", "x", "-"})] = a[i]
		}
		if chance(50) {
			return m
		}
		return map[string]interface{}{"a": m, "b": d.leaf()}
	}
	if chance(50) {
		return a
	}
	return map[string]interface{}{"list": a, "a": d.leaf(), "b": d.leaf()}
}

// doc builds a document of one of several shapes that the path generators aim at.  Now and
// then a few of its parts are left undecoded (json.RawMessage, the body of an envelope).
func (d docGen) doc(trap bool) interface{} {
	v := d.doc0(trap)
	if rn(14) == 13 {
		if rn(8) == 0 {
			// the whole message still undecoded
			if txt, err := json.Marshal(v); err == nil && len(txt) <= 4096 {
				return json.RawMessage(rawBuffer(txt))
			}
		}
		rawify(v, 1+rn(3))
	}
	return v
}

// rawBuffer returns the text in a buffer of its own: a new one, or (a caller that recycles
// its message buffers) one that held another text of the same length in an EARLIER run of
// this process, whose documents are gone.  Which of the two does not influence any draw.
var (
	rawArena = map[int][][]byte{}
	rawUsed  = map[*byte]int{}
	runNo    int // number of the run in this process (set by main)
)

func rawBuffer(txt []byte) []byte {
	recycle := rn(10) < 6
	if len(txt) == 0 {
		return txt
	}
	if recycle {
		for _, b := range rawArena[len(txt)] {
			if rawUsed[&b[0]] != runNo {
				rawUsed[&b[0]] = runNo
				copy(b, txt)
				return b
			}
		}
	}
	b := make([]byte, len(txt))
	copy(b, txt)
	if len(rawArena[len(txt)]) < 32 {
		rawArena[len(txt)] = append(rawArena[len(txt)], b)
		rawUsed[&b[0]] = runNo
	}
	return b
}

// editRawInPlace overwrites one digit in one undecoded part of v (the caller's own buffer,
// edited between two calls); false if v has no such part.
func editRawInPlace(v interface{}, pick int) bool {
	var raws [][]byte
	var walk func(x interface{}, d int)
	walk = func(x interface{}, d int) {
		if d > 8 {
			return
		}
		switch t := x.(type) {
		case json.RawMessage:
			raws = append(raws, t)
		case []byte:
			raws = append(raws, t)
		case map[string]interface{}:
			for _, k := range sortedKeys(t) {
				walk(t[k], d+1)
			}
		case []interface{}:
			for _, e := range t {
				walk(e, d+1)
			}
		}
	}
	walk(v, 0)
	if len(raws) == 0 {
		return false
	}
	b := raws[pick%len(raws)]
	var at []int
	for i, c := range b {
		if c >= '0' && c <= '9' {
			at = append(at, i)
		}
	}
	if len(at) == 0 {
		return false
	}
	i := at[(pick/7)%len(at)]
	b[i] = '1' + (b[i]-'0'+byte(pick/3)%8)%9
	return true
}

// rawify replaces up to n container-valued members of v by their JSON text.
func rawify(v interface{}, n int) {
	type slot struct {
		m map[string]interface{}
		k string
		a []interface{}
		i int
	}
	var slots []slot
	var walk func(v interface{}, d int)
	walk = func(v interface{}, d int) {
		if d > 5 || len(slots) > 40 {
			return
		}
		switch c := v.(type) {
		case map[string]interface{}:
			for _, k := range sortedKeys(c) {
				switch c[k].(type) {
				case map[string]interface{}, []interface{}:
					slots = append(slots, slot{m: c, k: k})
					walk(c[k], d+1)
				}
			}
		case []interface{}:
			for i := range c {
				switch c[i].(type) {
				case map[string]interface{}, []interface{}:
					slots = append(slots, slot{a: c, i: i})
					walk(c[i], d+1)
				}
			}
		}
	}
	walk(v, 0)
	for ; n > 0 && len(slots) > 0; n-- {
		s := slots[rn(len(slots))]
		var sub interface{}
		if s.m != nil {
			sub = s.m[s.k]
		} else {
			sub = s.a[s.i]
		}
		switch sub.(type) {
		case map[string]interface{}, []interface{}:
		default:
			continue // already replaced
		}
		txt, err := json.Marshal(sub)
		if err != nil || len(txt) > 4096 {
			continue
		}
		txt = rawBuffer(txt)
		var raw interface{} = json.RawMessage(txt)
		if rn(4) == 0 {
			raw = []byte(txt)
		}
		if s.m != nil {
			s.m[s.k] = raw
		} else {
			s.a[s.i] = raw
		}
	}
}

// seeThrough shows the path generators what an undecoded part would decode to.
func seeThrough(v interface{}) interface{} {
	var txt []byte
	switch t := v.(type) {
	case json.RawMessage:
		txt = t
	case []byte:
		txt = t
	default:
		return v
	}
	var out interface{}
	if json.Unmarshal(txt, &out) != nil {
		return v
	}
	return out
}

func (d docGen) doc0(trap bool) interface{} {
	if rn(25) == 24 {
		return d.bigDoc()
	}
	if rn(250) == 249 {
		// very deep and narrow: deeper documents blow up result sizes under repeated recursive descent (130 levels: millions of overlapping results)
		return d.deepChain([]int{17, 20, 33, 40}[rn(4)])
	}
	switch rn(6) {
	case 0: // array of members
		n := rn(7)
		a := make([]interface{}, n)
		for i := range a {
			a[i] = d.member()
		}
		return a
	case 1: // object with scalar fields and a member list
		m := map[string]interface{}{}
		n := rn(7)
		a := make([]interface{}, n)
		for i := range a {
			a[i] = d.member()
		}
		m["list"] = a
		for _, k := range []string{"a", "b", "x"} {
			if chance(70) {
				m[k] = d.leaf()
			}
		}
		if chance(30) {
			m["c"] = d.value(2, trap)
		}
		return m
	case 2: // object of members
		m := map[string]interface{}{}
		n := rn(7)
		for i := 0; i < n; i++ {
			m[d.key(trap)] = d.member()
		}
		return m
	case 3:
		if rn(12) == 11 {
			return d.object(6, trap, 1+rn(3)) // deep
		}
		return d.object(3, trap, 1+rn(8))
	case 4:
		if rn(12) == 11 {
			return d.array(6, trap, 1+rn(3))
		}
		return d.array(3, trap, rn(7))
	}
	// object "a" holding arrays (aggregate / value-group cases)
	m := map[string]interface{}{}
	m["a"] = d.value(3, trap)
	m["b"] = d.value(2, trap)
	if chance(50) {
		m["x"] = d.leaf()
	}
	return m
}

// variant re-draws leaves of a copy of v (a document of the same family).
func (d docGen) variant(v interface{}) interface{} {
	switch t := v.(type) {
	case []interface{}:
		if t == nil {
			return t
		}
		out := make([]interface{}, len(t))
		for i, e := range t {
			out[i] = d.variant(e)
		}
		// documents of one family may differ in the LENGTH of their arrays too (state kept in a
		// parsed function that depends on an earlier array's length shows only then)
		switch rn(6) {
		case 4:
			if len(out) > 1 {
				out = out[:1+rn(len(out)-1)]
			}
		case 5:
			// (only leaves or small members are added: copying sub-trees at every level of a
			// deep document would grow it exponentially)
			for k := 1 + rn(4); k > 0 && len(out) > 0; k-- {
				e := out[rn(len(out))]
				if m, ok := e.(map[string]interface{}); ok && len(m) <= 4 {
					c := map[string]interface{}{}
					for _, kk := range sortedKeys(m) {
						switch m[kk].(type) {
						case map[string]interface{}, []interface{}:
							c[kk] = d.leaf()
						default:
							c[kk] = m[kk]
						}
					}
					out = append(out, c)
					continue
				}
				switch e.(type) {
				case map[string]interface{}, []interface{}:
					out = append(out, d.leaf())
				default:
					out = append(out, e)
				}
			}
		}
		return out
	case map[string]interface{}:
		if t == nil {
			return t
		}
		out := make(map[string]interface{}, len(t))
		keys := sortedKeys(t)
		for _, k := range keys {
			out[k] = d.variant(t[k])
		}
		return out
	default:
		if chance(50) {
			return d.leaf()
		}
		return v
	}
}

func sortedKeys(m map[string]interface{}) []string {
	keys := make([]string, 0, len(m))
	for k := range m {
		keys = append(keys, k)
	}
	// insertion sort keeps this free of package sort's allocation patterns; tiny inputs
	for i := 1; i < len(keys); i++ {
		for j := i; j > 0 && keys[j] < keys[j-1]; j-- {
			keys[j], keys[j-1] = keys[j-1], keys[j]
		}
	}
	return keys
}

// ---------------------------------------------------------------------------
// paths

// model step kinds (the families whose order C07 spells out)
const (
	mName = iota
	mMulti
	mWild
	mIndexUnion
	mTrueFilter
	mRecursive // applies the following step to every container in pre-order
)

type MStep struct {
	Kind  int
	Names []string   // mName (1), mMulti (n; "*" = wildcard entry)
	Idx   []int      // mIndexUnion
	Wild  []bool     // mIndexUnion: entry i is a wildcard (Idx[i] ignored)
	Slice []*[3]*int // mIndexUnion: entry i is a slice start:end:step (nil parts omitted); nil: not a slice
}

// PathSpec is a generated path with what the generator knows about it.
type PathSpec struct {
	Text          string
	Prefix        string  // text before the trailing functions
	Funcs         []int   // trailing functions, in order
	SingleValued  bool    // the prefix selects at most one value by construction
	Model         []MStep // non-nil: the whole prefix lies in the modelled families
	Fail          string  // non-empty: Parse is expected to fail (template name)
	UsesFuncs     uint32
	BothMissingEQ bool // contains ==/!= whose two operands are paths (reach probe)
	LiteralLeft   bool // comparison written with the literal or $-path on the left
	ForeignFunc   bool // ends in a function name outside the menu (unknown today)
}

func quoteName(k string, dbl bool) string {
	q := byte('\'')
	if dbl {
		q = '"'
	}
	var b strings.Builder
	b.WriteByte(q)
	for i := 0; i < len(k); i++ {
		c := k[i]
		if c == q || c == '\\' {
			b.WriteByte('\\')
		}
		b.WriteByte(c)
	}
	b.WriteByte(q)
	return b.String()
}

func dotOK(k string) bool {
	if k == "" {
		return false
	}
	for _, r := range k {
		if r < 0x80 && !(r == '-' || r == '_' || (r >= '0' && r <= '9') || (r >= 'a' && r <= 'z') || (r >= 'A' && r <= 'Z')) {
			return false
		}
	}
	return true
}

func nameStep(k string) string {
	if dotOK(k) && chance(60) {
		return "." + k
	}
	return "[" + quoteName(k, chance(30)) + "]"
}

type pathGen struct {
	funcs   uint32 // registered functions (mask)
	trap    bool
	spec    *PathSpec
	noFuncs bool
	// document awareness: cur is (one of) the node(s) the path built so far selects in the
	// target document, members the members a filter being generated ranges over; both nil when
	// generating blind
	cur     interface{}
	aware   bool
	members []interface{}
	// rootPath: the text of the path so far while it is single-valued and follows the target
	// document ("" otherwise); memberSel[i]: the child selector of members[i] below it
	rootPath  string
	memberSel []string
}

func literalOf(v interface{}) (string, bool) {
	switch t := v.(type) {
	case float64:
		return strconv.FormatFloat(t, 'g', -1, 64), true
	case json.Number:
		return string(t), true
	case string:
		for _, r := range t {
			if r == '\'' || r == '\\' || r == '"' {
				return "", false
			}
		}
		if chance(50) {
			return "'" + t + "'", true
		}
		return `"` + t + `"`, true
	case bool:
		if t {
			return "true", true
		}
		return "false", true
	case nil:
		return "null", true
	}
	return "", false
}

func membersOf(v interface{}) []interface{} {
	switch t := v.(type) {
	case map[string]interface{}:
		var out []interface{}
		for _, k := range sortedKeys(t) {
			out = append(out, t[k])
		}
		return out
	case []interface{}:
		return t
	}
	return nil
}

// awareComparison builds a comparison that looks at a field some member really has, against
// a literal that some member really holds (so that it is true for some members, false for others).
func (g *pathGen) awareComparison() (string, bool) {
	if len(g.members) == 0 {
		return "", false
	}
	mi := rn(len(g.members))
	m := g.members[mi]
	at := "@"
	var v interface{} = m
	if mm, ok := m.(map[string]interface{}); ok {
		keys := sortedKeys(mm)
		if len(keys) == 0 {
			return "", false
		}
		k := keys[rn(len(keys))]
		at += nameStep(k)
		v = mm[k]
		// the literal may come from the same field of another member
		if o, ok := g.members[rn(len(g.members))].(map[string]interface{}); ok {
			if ov, ok := o[k]; ok {
				v = ov
			}
		}
	} else if a, ok := m.([]interface{}); ok && len(a) > 0 {
		i := rn(len(a))
		at += "[" + strconv.Itoa(i) + "]"
		v = a[i]
	}
	if arr, isArr := v.([]interface{}); isArr && len(arr) > 0 && !g.noFuncs && chance(40) {
		// the member (or the field looked at) is an array: an aggregate over its elements,
		// selected by each multi-valued step kind, compared with what the first (last)
		// element really is
		if aggs := g.registered(true); len(aggs) > 0 {
			f := aggs[rn(len(aggs))]
			sel := pick([]string{"[*]", ".*", "[*,*]", "[*,*,*]", "[0,1]", "[0:]", "[::-1]", "[*,0]"})
			el := arr[0]
			if sel == "[::-1]" {
				el = arr[len(arr)-1]
			}
			if lit, ok := literalOf(el); ok {
				g.spec.UsesFuncs |= 1 << uint(f)
				op := pick([]string{"==", "!=", "==", "<=", ">="})
				if _, num := el.(float64); !num {
					if _, num = el.(json.Number); !num {
						op = pick([]string{"==", "!="})
					}
				}
				return at + sel + "." + funcNames[f] + "()" + sp() + op + sp() + lit, true
			}
		}
	}
	if g.rootPath != "" && chance(5) {
		// against ALL the members, reached from the root through each multi-valued step kind:
		// the grammar must refuse it (a comparison needs single values)
		op := pick([]string{"<", "<=", ">", ">=", "==", "!="})
		return at + sp() + op + sp() + g.rootPath + groupSuffix(), true
	}
	if g.rootPath != "" && len(g.memberSel) == len(g.members) && at != "@" && chance(20) {
		// against the very same field of one member, reached from the root: true for some
		// members and false for that one (or the other way round) whatever the leaves hold
		op := pick([]string{"==", "!=", "!=", "<", ">="})
		rp := g.rootPath + g.memberSel[mi] + at[1:]
		g.spec.BothMissingEQ = g.spec.BothMissingEQ || op == "==" || op == "!="
		if chance(40) {
			g.spec.LiteralLeft = true
			return rp + sp() + op + sp() + at, true
		}
		return at + sp() + op + sp() + rp, true
	}
	lit, ok := literalOf(v)
	if !ok {
		return "", false
	}
	ops := []string{"==", "!=", "=="}
	switch v.(type) {
	case float64, json.Number:
		ops = []string{"==", "!=", "<", "<=", ">", ">="}
	}
	op := ops[rn(len(ops))]
	if chance(30) {
		g.spec.LiteralLeft = true
		return lit + sp() + op + sp() + at, true
	}
	return at + sp() + op + sp() + lit, true
}

// awareStep renders a step that matches the node the path selects so far.
func (g *pathGen) awareStep() (text string, single bool, ok bool) {
	g.cur = seeThrough(g.cur)
	switch t := g.cur.(type) {
	case map[string]interface{}:
		keys := sortedKeys(t)
		if len(keys) == 0 {
			return "", false, false
		}
		switch rn(10) {
		case 0, 1, 2, 3:
			k := keys[rn(len(keys))]
			g.cur = t[k]
			return nameStep(k), true, true
		case 4:
			g.cur = t[keys[0]]
			return pick([]string{".*", "[*]"}), false, true
		case 5:
			a, b := keys[rn(len(keys))], keys[rn(len(keys))]
			g.cur = t[a]
			return "[" + quoteName(a, chance(30)) + "," + quoteName(b, false) + "]", false, true
		case 6:
			// recursive descent to a key that exists somewhere below
			var found []string
			var walk func(v interface{}, d int)
			walk = func(v interface{}, d int) {
				if d > 4 {
					return
				}
				for _, c := range membersOf(v) {
					if cm, ok := c.(map[string]interface{}); ok {
						for _, k := range sortedKeys(cm) {
							if dotOK(k) {
								found = append(found, k)
							}
						}
					}
					walk(c, d+1)
				}
			}
			walk(t, 0)
			if len(found) == 0 {
				g.cur = t[keys[0]]
				return "..*", false, true
			}
			k := found[rn(len(found))]
			g.cur = nil
			return ".." + k, false, true
		default:
			g.members = membersOf(t)
			g.memberSel = g.memberSel[:0]
			for _, k := range keys {
				g.memberSel = append(g.memberSel, "["+quoteName(k, false)+"]")
			}
			q := g.query(2)
			g.members, g.memberSel = nil, nil
			g.cur = t[keys[0]]
			return "[?(" + sp() + q + sp() + ")]", false, true
		}
	case []interface{}:
		n := len(t)
		if n == 0 {
			return "", false, false
		}
		switch rn(10) {
		case 0, 1, 2:
			i := rn(n)
			g.cur = t[i]
			if chance(30) {
				return "[" + strconv.Itoa(i-n) + "]", true, true
			}
			return "[" + strconv.Itoa(i) + "]", true, true
		case 3:
			g.cur = t[0]
			return "[" + pick([]string{":", "0:", ":" + strconv.Itoa(n), "::1", "0:" + strconv.Itoa(n) + ":2", "-" + strconv.Itoa(n) + ":"}) + "]", false, true
		case 4:
			i, j := rn(n), rn(n)
			g.cur = t[i]
			if chance(25) {
				return longUnion(n), false, true
			}
			if chance(40) {
				// a union holding a wildcard next to something else
				return pick([]string{"[*," + strconv.Itoa(i) + "]", "[" + strconv.Itoa(i) + ",*]", "[*,*]", "[*,0:1]"}), false, true
			}
			return "[" + strconv.Itoa(i) + "," + strconv.Itoa(j) + "]", false, true
		case 5:
			g.cur = t[0]
			return pick([]string{".*", "[*]"}), false, true
		default:
			g.members = t
			g.memberSel = g.memberSel[:0]
			for i := range t {
				g.memberSel = append(g.memberSel, "["+strconv.Itoa(i)+"]")
			}
			q := g.query(2)
			g.members, g.memberSel = nil, nil
			g.cur = t[0]
			return "[?(" + sp() + q + sp() + ")]", false, true
		}
	}
	return "", false, false
}

func (g *pathGen) pathKey() string {
	if g.trap && chance(40) {
		return pick(trapKeys)
	}
	return plainKeys[rn(len(plainKeys))]
}

func (g *pathGen) registered(agg bool) []int {
	var out []int
	for f := 0; f < nFuncs; f++ {
		if g.funcs&(1<<uint(f)) != 0 && isAggregate(f) == agg {
			out = append(out, f)
		}
	}
	return out
}

func (g *pathGen) anyFunc() (int, bool) {
	var out []int
	for f := 0; f < nFuncs; f++ {
		if g.funcs&(1<<uint(f)) != 0 {
			out = append(out, f)
		}
	}
	if len(out) == 0 || g.noFuncs {
		return 0, false
	}
	f := out[rn(len(out))]
	g.spec.UsesFuncs |= 1 << uint(f)
	return f, true
}

func num() string {
	if rn(40) == 39 {
		return strconv.FormatFloat(rareNums[rn(len(rareNums))], 'g', -1, 64)
	}
	return strconv.FormatFloat(numPalette[rn(len(numPalette))], 'g', -1, 64)
}

func literal() string {
	switch rn(7) {
	case 0, 1, 2:
		return num()
	case 3:
		return "'" + pick(strPalette) + "'"
	case 4:
		return `"` + pick(strPalette) + `"`
	case 5:
		return pick([]string{"true", "false"})
	}
	return "null"
}

// singlePath renders a single-valued operand path rooted at '@' or '$'.
func (g *pathGen) singlePath(root string) string {
	s := root
	n := rn(3)
	if root == "$" && n == 0 && chance(70) {
		n = 1
	}
	for i := 0; i < n; i++ {
		switch rn(6) {
		case 0, 1, 2:
			s += nameStep(plainKeys[rn(3)])
		case 3:
			s += nameStep(g.pathKey())
		case 4:
			s += "[" + strconv.Itoa(rn(3)) + "]"
		default:
			s += "[-1]"
		}
	}
	if chance(10) {
		if f, ok := g.anyFunc(); ok {
			if isAggregate(f) && chance(50) {
				// the aggregate's parameter ends in a step of any multi-valued kind
				s += pick([]string{".*", ".*", "[*]", "[*,*]", "[0,1]", "[0:2]", "[::-1]", "['a','b']", "..a", "[*,0]"})
			}
			s += "." + funcNames[f] + "()"
		}
	}
	return s
}

// groupPath renders an operand path that may select many values (existence tests only).
func (g *pathGen) groupPath(root string, depth int) string {
	s := root
	switch rn(7) {
	case 0:
		s += ".*"
	case 1:
		s += ".." + plainKeys[rn(3)]
	case 2:
		s += pick([]string{"[0:2]", "[0:2]", "[::-1]", "[2:0:-1]", "[-1:-3:-1]"})
	case 3:
		s += "['a','b']"
	case 4:
		s += "[*]"
	case 5:
		s += "[0,1]"
	default:
		if depth > 0 {
			s += nameStep(plainKeys[rn(3)]) + "[?(" + g.query(depth-1) + ")]"
		} else {
			s += ".*"
		}
	}
	return s
}

func groupSuffix() string {
	return pick([]string{"[::-1]", "[2:0:-1]", "[-1:-3:-1]", "[::-2]", "[0:2]", "[1:]", "[*]", ".*", "..a", "[0,1]", "['a','b']", "[?(@)]", "[0:2].a", "[::-1].a"})
}

func sp() string {
	if chance(15) {
		return " "
	}
	return ""
}

func (g *pathGen) comparison() string {
	if len(g.members) > 0 && chance(70) {
		if c, ok := g.awareComparison(); ok {
			return c
		}
	}
	op := pick([]string{"==", "!=", "==", "<", "<=", ">", ">="})
	ordering := op[0] == '<' || op[0] == '>'
	at := g.singlePath("@")
	var other string
	otherIsPath := false
	if ordering {
		if chance(75) {
			other = num()
		} else {
			other = g.singlePath("$")
			otherIsPath = true
		}
	} else {
		switch rn(4) {
		case 0, 1:
			other = literal()
		case 2:
			other = g.singlePath("$")
			otherIsPath = true
		default:
			// literal-like on both sides is legal for == and !=
			l := literal()
			if chance(50) {
				l = g.singlePath("$")
				g.spec.BothMissingEQ = true
			}
			r := literal()
			if chance(50) {
				r = g.singlePath("$")
			}
			g.spec.LiteralLeft = true
			return l + sp() + op + sp() + r
		}
	}
	if otherIsPath && !ordering {
		g.spec.BothMissingEQ = true
	}
	if chance(4) {
		// an operand that may select several values: the grammar refuses it in a comparison,
		// whichever step kind it ends in (each kind carries its own flag)
		if otherIsPath && chance(60) {
			other += groupSuffix()
		} else {
			at += groupSuffix()
		}
	}
	if chance(35) {
		g.spec.LiteralLeft = true
		return other + sp() + op + sp() + at
	}
	return at + sp() + op + sp() + other
}

func (g *pathGen) query(depth int) string {
	k := rn(10)
	if depth <= 0 && k >= 7 {
		k = rn(7)
	}
	switch k {
	case 0, 1, 2, 3:
		return g.comparison()
	case 4:
		not := ""
		if chance(30) {
			not = "!"
		}
		if chance(50) {
			return not + g.singlePath(pick([]string{"@", "@", "$"}))
		}
		return not + g.groupPath(pick([]string{"@", "@", "$"}), depth)
	case 5:
		return g.singlePath("@") + sp() + "=~" + sp() + "/" + regex() + "/"
	case 6:
		return g.comparison()
	case 7:
		return g.query(depth-1) + sp() + "&&" + sp() + g.query(depth-1)
	case 8:
		return g.query(depth-1) + sp() + "||" + sp() + g.query(depth-1)
	}
	return "(" + sp() + g.query(depth-1) + sp() + ")"
}

// regex renders a regular expression: mostly from a small palette (so that the same pattern
// recurs), now and then one of an unbounded family (caches of compiled patterns fill up and
// evict only when many DISTINCT patterns are seen by one process).
func regex() string {
	if rn(4) == 3 {
		n := rn(400)
		switch rn(4) {
		case 0:
			return "^[ab]{0," + strconv.Itoa(n%9) + "}$"
		case 1:
			return "^v" + strconv.Itoa(n) + "$"
		case 2:
			return "(?i)x" + strconv.Itoa(n%50) + "|a"
		}
		return "a{" + strconv.Itoa(1+n%3) + "}|" + strconv.Itoa(n)
	}
	return pick([]string{"a", "^[ab]$", "1", ".", "(?i)A", "^$", "b+", "[0-9]", "x|a"})
}

func idx() string {
	return pick([]string{"0", "1", "2", "-1", "-2", "5", "+1", "00"})
}

func slice() string {
	part := func() string {
		if chance(40) {
			return pick([]string{"0", "1", "2", "-1", "-2", "3", "10"})
		}
		return ""
	}
	s := part() + ":" + part()
	if chance(50) {
		s += ":" + pick([]string{"", "1", "2", "-1", "-2", "0"})
	}
	return s
}

// longUnion renders a union of 3-7 entries (indices of both signs, now and then a slice or wildcard).
func longUnion(n int) string {
	m := 3 + rn(5)
	parts := make([]string, m)
	for i := range parts {
		switch rn(10) {
		case 0:
			parts[i] = "*"
		case 1:
			parts[i] = slice()
		case 2, 3, 4:
			parts[i] = strconv.Itoa(-1 - rn(3))
		default:
			k := 4
			if n > 0 {
				k = n
			}
			parts[i] = strconv.Itoa(rn(k))
		}
	}
	return "[" + strings.Join(parts, ","+sp()) + "]"
}

func (g *pathGen) bracketRest() (text string, single bool) {
	if rn(10) == 9 {
		return longUnion(0), false
	}
	switch rn(8) {
	case 0:
		return "[" + idx() + "]", true
	case 1:
		return "[" + slice() + "]", false
	case 2:
		return "[" + idx() + "," + sp() + idx() + "]", false
	case 3:
		return "[" + slice() + "," + idx() + "]", false
	case 4:
		return "[*]", false
	case 5:
		return "[*," + idx() + "]", false
	}
	return "[?(" + sp() + g.query(2) + sp() + ")]", false
}

func (g *pathGen) multiName() string {
	n := 2 + rn(2)
	parts := make([]string, n)
	for i := range parts {
		if chance(12) {
			parts[i] = "*"
		} else {
			parts[i] = quoteName(g.pathKey(), chance(30))
		}
	}
	return "[" + strings.Join(parts, ","+sp()) + "]"
}

// step renders one path step; single reports whether it keeps a path single-valued.
func (g *pathGen) step() (text string, single bool) {
	if g.aware && g.cur != nil && chance(88) {
		if t, s, ok := g.awareStep(); ok {
			return t, s
		}
	}
	g.cur = nil
	switch rn(12) {
	case 0, 1, 2, 3:
		return nameStep(g.pathKey()), true
	case 4:
		if chance(50) {
			return ".*", false
		}
		return "[*]", false
	case 5:
		return g.multiName(), false
	case 6, 7:
		return g.bracketRest()
	case 8:
		// recursive descent followed by each form
		switch rn(6) {
		case 0, 1:
			return ".." + plainKeys[rn(3)], false
		case 2:
			return "..*", false
		case 3:
			return ".." + g.multiName(), false
		case 4:
			t, _ := g.bracketRest()
			return ".." + t, false
		}
		return "..[*]", false
	case 9:
		return "[?(" + g.query(2) + ")]", false
	}
	return nameStep(plainKeys[rn(3)]), true
}

// genPath renders a random path of up to maxSteps steps plus up to maxFuncs trailing functions.
func genPath(funcs uint32, trap bool, maxSteps, maxFuncs int) *PathSpec {
	return genPathFor(nil, funcs, trap, maxSteps, maxFuncs)
}

var builtinLike = []string{"count", "sum", "avg", "min", "max", "median", "length", "size", "last", "sort", "keys", "values", "reverse", "unique", "distinct", "flatten", "len"}

// genLongPath renders a very long but simple path (hundreds of steps): buffers of the parser
// that grow with the path length are only exercised by those.
func genLongPath() *PathSpec {
	n := []int{40, 70, 150, 300, 600}[rn(5)]
	unit := pick([]string{".a", "['a']", "[0]", "[?(@.a)]", ".*"})
	if unit == "[?(@.a)]" {
		n = n/8 + 1
	}
	s := "$" + strings.Repeat(unit, n)
	return &PathSpec{Text: s, Prefix: s}
}

// genPathFor generates a path that, with high probability, selects something in doc.
func genPathFor(doc interface{}, funcs uint32, trap bool, maxSteps, maxFuncs int) *PathSpec {
	if wide {
		maxSteps += 2
		if maxFuncs > 0 {
			maxFuncs++
		}
	}
	if rn(150) == 149 {
		return genLongPath()
	}
	spec := &PathSpec{SingleValued: true}
	g := &pathGen{funcs: funcs, trap: trap, spec: spec, cur: doc, aware: doc != nil}
	if rn(12) == 11 {
		maxSteps += 5 // now and then a long path
	}
	s := "$"
	if chance(5) {
		s = "" // the grammar allows omitting '$' before a name or bracket
	}
	n := rn(maxSteps + 1)
	if s == "" && n == 0 {
		n = 1
	}
	if s == "" {
		g.aware = false
	}
	for i := 0; i < n; i++ {
		if g.aware && i > 0 {
			// nothing below a scalar; and once the path left the known part of the document
			// further steps are mostly misses
			switch g.cur.(type) {
			case map[string]interface{}, []interface{}:
			case nil:
				if rn(10) < 6 {
					n = i
					continue
				}
			default:
				if rn(10) < 9 {
					n = i
					continue
				}
			}
		}
		g.rootPath = ""
		if g.aware && g.cur != nil && spec.SingleValued && strings.HasPrefix(s, "$") {
			g.rootPath = s
		}
		t, single := g.step()
		if s == "" && strings.HasPrefix(t, ".") && !strings.HasPrefix(t, "..") {
			t = t[1:]
		} else if s == "" && strings.HasPrefix(t, "..") {
			s = "$"
		}
		s += t
		if !single {
			spec.SingleValued = false
		}
	}
	if s == "" {
		s = "$"
	}
	spec.Prefix = s
	if maxFuncs > 0 && rn(60) == 59 {
		// a function name the library might one day provide itself: today an unknown function
		// (Parse fails); if a change adds built-ins, they get exercised
		s += "." + pick(builtinLike) + "()"
		spec.Text = s
		spec.ForeignFunc = true
		return spec
	}
	nf := 0
	if maxFuncs > 0 {
		nf = rn(maxFuncs + 1)
	}
	for i := 0; i < nf; i++ {
		f, ok := g.anyFunc()
		if !ok {
			break
		}
		spec.Funcs = append(spec.Funcs, f)
		s += "." + funcNames[f] + "()"
	}
	spec.Text = s
	return spec
}

// failing-Parse templates: each dies in a different parser action (DESIGN.md §2.4)
var failTemplates = []struct{ name, path string }{
	{"int-overflow", `$[99999999999999999999]`},
	{"int-overflow-slice", `$.a[1:99999999999999999999]`},
	{"bad-float", `$[?(@.a == 1e999)]`},
	{"bad-float2", `$[?(@.a > 1.2.3)]`},
	{"bad-regex", `$[?(@.a =~ /(/)]`},
	{"bad-string", "$['a\tb']"},
	{"bad-string-dq", "$.a[\"x\x01\"]"},
	{"unknown-function", `$.a.nofn()`},
	{"unknown-function-late", `$[?(@.a == 1)].b.nofn()`},
	{"unknown-function-in-filter", `$[?(@.a.nofn() == 1)]`},
	{"script", `$[(1+1)]`},
	{"script-late", `$.a[?(@.b)][(@.length-1)]`},
	{"value-group-operand", `$[?(@.* == 1)]`},
	{"value-group-operand-root", `$[?($..a == 1)]`},
	{"value-group-regex", `$[?(@[0:2] =~ /a/)]`},
	{"two-current", `$[?(@.a == @.b)]`},
	{"two-current-late", `$.list[?(@.a > 1 && @.a != @.b)]`},
	{"trailing-garbage", `$.a]`},
	{"trailing-garbage2", `$.a[0].b c`},
	{"unterminated", `$[0`},
	{"unterminated-filter", `$[?(@.a == 1`},
	{"empty", ``},
	{"deep-then-fail", `$.a.b[0,1][?(@.x == 'y' && ($.z || !@.w))]..q[1:2].nofn()`},
}

func genFailPath() *PathSpec {
	t := failTemplates[rn(len(failTemplates))]
	return &PathSpec{Text: t.path, Prefix: t.path, Fail: t.name}
}

// internal-panic template (needs an aggregate registered): a live *runtime.TypeAssertionError
func genInternalPanicPath(funcs uint32) *PathSpec {
	for _, f := range []int{fCnt, fAll, fFirst, fAF} {
		if funcs&(1<<uint(f)) != 0 {
			n := funcNames[f]
			p := fmt.Sprintf(`$[?(@.%s().%s() == 1)]`, n, n)
			return &PathSpec{Text: p, Prefix: p, Fail: "internal-panic", UsesFuncs: 1 << uint(f)}
		}
	}
	return genFailPath()
}

// genModelPath renders a path inside the families whose order the property spells out.
func genModelPath(trap bool) *PathSpec { return genModelPathFor(nil, trap) }

// genModelPathFor: with a document, the steps mostly fit the node selected so far (an existing
// key of an object, index unions on arrays).
func genModelPathFor(doc interface{}, trap bool) *PathSpec {
	spec := &PathSpec{}
	s := "$"
	n := 1 + rn(3)
	if doc != nil && chance(30) {
		n += rn(3)
	}
	cur := doc
	key := func() string {
		if m, ok := cur.(map[string]interface{}); ok && len(m) > 0 && chance(85) {
			ks := sortedKeys(m)
			return ks[rn(len(ks))]
		}
		if trap && chance(50) {
			return pick(trapKeys)
		}
		return plainKeys[rn(3)]
	}
	steps := []MStep{}
	for i := 0; i < n; i++ {
		k := rn(9)
		if cur != nil && chance(80) {
			// fit the step kind to the node: names and multi-names on objects, index unions
			// on arrays, wildcards and the always-true filter on both
			switch cur.(type) {
			case map[string]interface{}:
				k = []int{0, 1, 0, 2, 4, 5, 8}[rn(7)]
			case []interface{}:
				k = []int{3, 3, 3, 2, 5, 8}[rn(6)]
			default:
				n = i
				continue
			}
		}
		rec := false
		if k == 8 {
			rec = true
			k = rn(6)
			if k == 3 {
				k = 2 // index union after '..' is modelled too, keep the mix simple
			}
		}
		var t string
		var st MStep
		switch k {
		case 0, 1:
			nm := key()
			st = MStep{Kind: mName, Names: []string{nm}}
			if rec {
				if !dotOK(nm) || chance(30) {
					t = "[" + quoteName(nm, false) + "]"
				} else {
					t = nm
				}
			} else {
				t = nameStep(nm)
			}
		case 2, 6:
			st = MStep{Kind: mWild}
			if rec {
				t = pick([]string{"*", "[*]"})
			} else {
				t = pick([]string{".*", "[*]"})
			}
		case 3:
			m := 2 + rn(2)
			if chance(20) {
				m = 3 + rn(4)
			}
			single := chance(25) // a lone slice [a:b:c]
			if single {
				m = 1
			}
			// now and then the whole union is one run of consecutive indexes which may begin
			// before the array, cross -1/0 or run off its end, plus one stray index
			runFrom, runLen := 0, 0
			if a, ok := cur.([]interface{}); ok && len(a) > 0 && !single && chance(12) {
				runLen = 2 + rn(4)
				runFrom = rn(2*len(a)+6) - len(a) - 3
				m = runLen + rn(2)
			}
			ix := make([]int, m)
			wild := make([]bool, m)
			slices := make([]*[3]*int, m)
			parts := make([]string, m)
			for j := range ix {
				if j < runLen {
					ix[j] = runFrom + j
					parts[j] = strconv.Itoa(ix[j])
					continue
				}
				if !single && chance(15) {
					wild[j] = true
					parts[j] = "*"
					continue
				}
				if single || chance(20) {
					// a slice entry, Python semantics, parts omitted now and then
					var sl [3]*int
					txt := ""
					ln := 4
					if a, ok := cur.([]interface{}); ok && len(a) > 0 {
						ln = len(a)
					}
					for q := 0; q < 3; q++ {
						if q > 0 {
							if q == 2 && chance(50) {
								break
							}
							txt += ":"
						}
						if chance(55) {
							v := rn(2*ln+3) - ln - 1
							if q == 2 {
								v = []int{1, 2, -1, -2, 3, 0}[rn(6)]
							}
							vv := v
							sl[q] = &vv
							txt += strconv.Itoa(v)
						}
					}
					slices[j] = &sl
					parts[j] = txt
					continue
				}
				ix[j] = rn(4) - 1
				if a, ok := cur.([]interface{}); ok && len(a) > 0 && chance(70) {
					ix[j] = rn(2*len(a)) - len(a) // any valid index of either sign
					if chance(15) {
						ix[j] = rn(2*len(a)+7) - len(a) - 3 // or just outside the array
					}
				}
				if j > 0 && !wild[j-1] && slices[j-1] == nil && chance(25) {
					ix[j] = ix[j-1] + 1 // a run of consecutive indexes (may cross -1, 0)
				}
				if chance(10) {
					ix[j] = 60 + rn(10) // wide arrays
				}
				parts[j] = strconv.Itoa(ix[j])
			}
			st = MStep{Kind: mIndexUnion, Idx: ix, Wild: wild, Slice: slices}
			t = "[" + strings.Join(parts, ",") + "]"
		case 4:
			m := 2 + rn(2)
			names := make([]string, m)
			parts := make([]string, m)
			allWild := true
			for j := range names {
				if chance(10) {
					names[j] = "*"
					parts[j] = "*"
				} else {
					names[j] = key()
					parts[j] = quoteName(names[j], chance(30))
					allWild = false
				}
			}
			_ = allWild
			st = MStep{Kind: mMulti, Names: names}
			t = "[" + strings.Join(parts, ",") + "]"
		case 5, 7:
			st = MStep{Kind: mTrueFilter}
			t = "[?(@)]"
		}
		if rec {
			steps = append(steps, MStep{Kind: mRecursive})
			s += ".."
		}
		steps = append(steps, st)
		s += t
		// advance the cursor to one of the nodes selected so far
		if cur != nil {
			if sel := modelEval(steps, doc); len(sel) > 0 {
				cur = sel[rn(len(sel))]
			} else {
				cur = nil
			}
		}
	}
	spec.Text, spec.Prefix, spec.Model = s, s, steps
	if len(steps) == 0 {
		// "$" alone (the document is a scalar or an undecoded message): the root is no slot
		// of the model
		spec.Model = nil
		spec.SingleValued = true
	}
	return spec
}

// ---------------------------------------------------------------------------
// configs

func genCfg(allowAccessor bool) CfgSpec {
	switch rn(6) {
	case 0:
		return CfgSpec{}
	case 1:
		return CfgSpec{Present: true}
	}
	c := CfgSpec{Present: true}
	c.Funcs = uint32(rn(1 << nFuncs))
	if chance(40) {
		c.Funcs = 1<<nFuncs - 1
	}
	switch rn(8) {
	case 6: // filter functions only
		c.Funcs &= 1<<fID | 1<<fTag | 1<<fFF | 1<<fYF
	case 7: // aggregate functions only
		c.Funcs &^= 1<<fID | 1<<fTag | 1<<fFF | 1<<fYF
	}
	if allowAccessor && chance(30) {
		c.Accessor = true
	}
	if c.Funcs != 0 && chance(30) {
		c.Variant = 1 + rn(2)
	}
	return c
}
