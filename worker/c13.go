package main

import (
	"fmt"
	"reflect"

	"verif/simrt"

	"github.com/AsaiYusuke/jsonpath"
)

// C13 — Accessor.Set writes exactly the selected location; Get is live (DESIGN.md §4).
//
// A history of Set / Get / direct in-place update / re-retrieval is executed against the
// real document and against a reference model (a plain copy of the document plus, for each
// accessor, the location it stands for).  Locations are not taken from the library: the same
// path is retrieved in plain mode and every value is located in the document by identity.

type uniq struct{ n int }

func (u *uniq) leaf(d docGen) interface{} {
	u.n++
	switch rn(3) {
	case 0:
		return d.num(float64(1000 + u.n))
	case 1:
		return fmt.Sprintf("s%d", u.n)
	}
	return d.num(float64(u.n) + 0.5)
}

func (u *uniq) value(d docGen, depth int) interface{} {
	if depth <= 0 {
		return u.leaf(d)
	}
	switch rn(5) {
	case 0, 1:
		return u.leaf(d)
	case 2, 3:
		return u.object(d, depth-1)
	}
	return u.array(d, depth-1)
}

func (u *uniq) object(d docGen, depth int) map[string]interface{} {
	m := map[string]interface{}{}
	n := 1 + rn(4)
	for i := 0; i < n; i++ {
		k := plainKeys[rn(len(plainKeys))]
		if chance(15) {
			k = pick(trapKeys)
		}
		m[k] = u.value(d, depth)
	}
	return m
}

func (u *uniq) array(d docGen, depth int) []interface{} {
	a := make([]interface{}, 1+rn(4))
	for i := range a {
		a[i] = u.value(d, depth)
	}
	return a
}

func (u *uniq) doc(d docGen) interface{} {
	if rn(20) == 19 {
		// a wide array (thresholds such as 64 elements)
		a := make([]interface{}, []int{17, 63, 64, 65, 70, 130}[rn(6)])
		for i := range a {
			a[i] = u.leaf(d)
		}
		if chance(50) {
			return a
		}
		return map[string]interface{}{"list": a, "a": u.leaf(d)}
	}
	if rn(8) == 7 {
		// rows of rows: nested array qualifiers ($.rows[1:3][0:2], $[0,2][1,0]) select from here
		rows := make([]interface{}, 2+rn(4))
		for i := range rows {
			row := make([]interface{}, 2+rn(4))
			for j := range row {
				row[j] = u.leaf(d)
			}
			rows[i] = row
		}
		if chance(50) {
			return rows
		}
		return map[string]interface{}{"rows": rows, "a": u.leaf(d)}
	}
	switch rn(4) {
	case 0:
		a := make([]interface{}, 1+rn(5))
		for i := range a {
			m := map[string]interface{}{}
			for _, k := range []string{"a", "b", "c"} {
				if chance(70) {
					m[k] = u.value(d, 1)
				}
			}
			if len(m) == 0 {
				m["a"] = u.leaf(d)
			}
			a[i] = m
		}
		return a
	case 1:
		m := u.object(d, 2)
		l := make([]interface{}, 1+rn(4))
		for i := range l {
			l[i] = map[string]interface{}{"a": u.leaf(d), "b": u.value(d, 1)}
		}
		m["list"] = l
		return m
	case 2:
		return u.array(d, 3)
	}
	return u.object(d, 3)
}

func contID(v interface{}) (uintptr, bool) {
	switch t := v.(type) {
	case map[string]interface{}:
		return reflect.ValueOf(t).Pointer(), true
	case []interface{}:
		if len(t) == 0 {
			return 0, false
		}
		return reflect.ValueOf(t).Pointer(), true
	}
	return 0, false
}

type location struct {
	ok        bool
	cont      uintptr
	cid       int  // stable number of the container (walk order), for messages and digests
	ambiguous bool // several slots hold an equal leaf: the value cannot be located by identity
	key       string
	idx       int
	isMap     bool
}

func (l location) String() string {
	if !l.ok {
		return "not-a-location"
	}
	if l.isMap {
		return fmt.Sprintf("object#%d[%q]", l.cid, l.key)
	}
	return fmt.Sprintf("array#%d[%d]", l.cid, l.idx)
}

// c13State is the real document, the model, and the live accessors.
type c13State struct {
	real    interface{}
	model   interface{}
	twin    map[uintptr]interface{} // real container -> model container
	realOf  map[uintptr]interface{} // real container id -> real container
	cids    map[uintptr]int
	accs    []jsonpath.Accessor
	locs    []location
	accPath []string
	seq     int
	dead    bool // the document was changed by a retrieval: stop judging this history
}

func (s *c13State) build(v interface{}) interface{} {
	switch t := v.(type) {
	case map[string]interface{}:
		m := make(map[string]interface{}, len(t))
		id, _ := contID(t)
		s.twin[id] = m
		s.realOf[id] = t
		s.cids[id] = len(s.cids) + 1
		for _, k := range sortedKeys(t) {
			m[k] = s.build(t[k])
		}
		return m
	case []interface{}:
		a := make([]interface{}, len(t))
		if id, ok := contID(t); ok {
			s.twin[id] = a
			s.realOf[id] = t
			s.cids[id] = len(s.cids) + 1
		}
		for i, e := range t {
			a[i] = s.build(e)
		}
		return a
	}
	return v
}

// index maps the identity of every value reachable from the real root to its slot.
func (s *c13State) index() (byCont map[uintptr]location, byLeaf map[string]location, slots []location) {
	byCont = map[uintptr]location{}
	byLeaf = map[string]location{}
	var walk func(v interface{})
	visit := func(child interface{}, l location) {
		slots = append(slots, l)
		if id, ok := contID(child); ok {
			byCont[id] = l
		} else {
			switch c := child.(type) {
			case map[string]interface{}:
			case []interface{}:
				// an empty array has no identity (no first element): it is located like a leaf,
				// by its rendering, and is ambiguous when there are several
				if len(c) == 0 {
					k := canon(child)
					if _, dup := byLeaf[k]; dup {
						byLeaf[k] = location{ambiguous: true}
					} else {
						byLeaf[k] = l
					}
				}
			default:
				k := canon(child)
				if _, dup := byLeaf[k]; dup {
					byLeaf[k] = location{ambiguous: true}
				} else {
					byLeaf[k] = l
				}
			}
		}
	}
	walk = func(v interface{}) {
		switch t := v.(type) {
		case map[string]interface{}:
			id, _ := contID(t)
			for _, k := range sortedKeys(t) {
				visit(t[k], location{ok: true, cont: id, cid: s.cids[id], key: k, isMap: true})
				walk(t[k])
			}
		case []interface{}:
			id, ok := contID(t)
			if !ok {
				return
			}
			for i, e := range t {
				visit(e, location{ok: true, cont: id, cid: s.cids[id], idx: i})
				walk(e)
			}
		}
	}
	walk(s.real)
	return
}

func (s *c13State) locate(v interface{}, byCont map[uintptr]location, byLeaf map[string]location) location {
	if id, ok := contID(v); ok {
		return byCont[id]
	}
	switch c := v.(type) {
	case map[string]interface{}:
		return location{}
	case []interface{}:
		if len(c) == 0 {
			return byLeaf[canon(v)]
		}
		return location{}
	}
	return byLeaf[canon(v)]
}

func (s *c13State) modelRead(l location) interface{} {
	c := s.twin[l.cont]
	if l.isMap {
		return c.(map[string]interface{})[l.key]
	}
	return c.([]interface{})[l.idx]
}

func (s *c13State) modelWrite(l location, v interface{}) {
	c := s.twin[l.cont]
	if l.isMap {
		c.(map[string]interface{})[l.key] = v
	} else {
		c.([]interface{})[l.idx] = v
	}
}

func (s *c13State) realWrite(l location, v interface{}) {
	c := s.realOf[l.cont]
	if l.isMap {
		c.(map[string]interface{})[l.key] = v
	} else {
		c.([]interface{})[l.idx] = v
	}
}

// verify is the oracle evaluated after every step.
func (s *c13State) verify(t *Task, o *Op, what string) {
	t.judged++
	if got, want := canon(s.real), canon(s.model); got != want {
		t.fail("C13:document-differs-from-model", pathKey(o), fmt.Sprintf("after %s\n  document %s\n  model    %s", what, clip(got, 500), clip(want, 500)))
		return
	}
	for i, a := range s.accs {
		if !s.locs[i].ok || a.Get == nil {
			continue
		}
		if got, want := canon(a.Get()), canon(s.modelRead(s.locs[i])); got != want {
			t.fail("C13:get-not-live", s.accPath[i], fmt.Sprintf("after %s: accessor %d (%q, %v)\n  Get()  %s\n  model  %s", what, i, s.accPath[i], s.locs[i], clip(got, 300), clip(want, 300)))
			return
		}
	}
}

func runC13() *RunResult {
	w := &World{prop: "C13"}
	dg := docGen{useNumber: chance(25)}
	u := &uniq{}
	t := &Task{id: 0}
	w.tasks = []*Task{t}
	st := &c13State{twin: map[uintptr]interface{}{}, realOf: map[uintptr]interface{}{}, cids: map[uintptr]int{}}
	st.real = u.doc(dg)
	st.model = st.build(st.real)
	snap := canon(st.real)
	cases := []uint64{}

	retrieve := func(p *PathSpec, cfg CfgSpec) *Op {
		o := &Op{Kind: opCustom, Path: p, Cfg: cfg}
		o.Do = func(t *Task, o *Op) {
			acfg := cfg
			acfg.Accessor = true
			acfg.Present = true
			pcfg := cfg
			pcfg.Accessor = false
			if st.dead {
				o.Got = "skipped"
				return
			}
			if o.Arg2 == 1 && cfg.Funcs != 0 {
				// the user functions hand back Accessors of their own: still function outputs
				t.rec.RetAcc = true
				defer func() { t.rec.RetAcc = false }()
				t.probe("user-function-returned-an-accessor-of-its-own")
			}
			ares, aout := safeRetrieve(p.Text, st.real, cfgArgs(acfg))
			o.Got = aout
			if simrt.Aborted() != 0 {
				return
			}
			pres, _ := safeRetrieve(p.Text, st.real, cfgArgs(pcfg))
			if canon(st.real) != canon(st.model) {
				// a retrieval changed the document: that is C04's finding, not a statement about
				// what Set writes; the rest of this history cannot be judged against the model
				t.probe("document-changed-by-retrieval(not-judged:C04)")
				st.dead = true
				return
			}
			if ares == nil {
				return
			}
			if pres == nil {
				t.probe("plain-and-accessor-results-disagree(not-judged)")
				return
			}
			if len(pres) != len(ares) {
				// the location the specification predicts for accessor i is the location of the
				// i-th result of the path; a path that yields another number of results in
				// accessor mode than in plain mode binds accessors to locations the path does
				// not select (or leaves selected ones without accessor)
				t.judged++
				t.fail("C13:accessors-for-other-locations-than-the-path-selects", p.Text, fmt.Sprintf("%v: %d accessors, but the path selects %d values in plain mode: %s", o, len(ares), len(pres), clip(canon(pres), 200)))
				return
			}
			byCont, byLeaf, _ := st.index()
			hasFunc := len(p.Funcs) > 0 || p.ForeignFunc
			// for the path families with a reference model the locations come from the model,
			// independently of what the library selects in either mode
			var mlocs []mslot
			if p.Model != nil {
				mlocs = modelWalk(p.Model, st.real)
				if len(mlocs) != len(ares) {
					t.probe("selection-differs-from-model(not-judged:C01)")
					return
				}
				t.probe("locations-from-the-reference-model")
			}
			for i, r := range ares {
				a, ok := r.(jsonpath.Accessor)
				if !ok {
					t.probe("non-accessor-result-in-accessor-mode(not-judged)")
					return
				}
				loc := location{}
				if mlocs != nil {
					ms := mlocs[i]
					if ms.m != nil {
						id, _ := contID(ms.m)
						loc = location{ok: true, cont: id, cid: st.cids[id], key: ms.key, isMap: true}
					} else {
						id, _ := contID(ms.a)
						loc = location{ok: true, cont: id, cid: st.cids[id], idx: ms.idx}
					}
					if a.Get != nil && canon(a.Get()) != canon(ms.val()) {
						t.judged++
						t.fail("C13:accessor-bound-to-another-location", p.Text, fmt.Sprintf("%v: result %d should stand for %v (value %s) but its Get() returns %s", o, i, loc, clip(canon(ms.val()), 100), clip(canon(a.Get()), 100)))
						return
					}
				} else if !hasFunc {
					loc = st.locate(pres[i], byCont, byLeaf)
				}
				if loc.ambiguous {
					// equal leaves at several slots (after Set(nil), Set(true) …): which slot this
					// result stands for cannot be told from outside; the accessor is not tracked
					t.probe("result-not-locatable-by-identity(not-judged)")
					continue
				}
				t.judged++
				if loc.ok && a.Set == nil {
					t.fail("C13:set-missing-on-location", p.Text, fmt.Sprintf("%v: result %d is the value at %v but Set is nil", o, i, loc))
					return
				}
				if !loc.ok && a.Set != nil {
					t.fail("C13:set-present-on-non-location", p.Text, fmt.Sprintf("%v: result %d (%s) is not a location of the document (root or function output) but Set is not nil", o, i, clip(canon(pres[i]), 100)))
					return
				}
				st.accs = append(st.accs, a)
				st.locs = append(st.locs, loc)
				st.accPath = append(st.accPath, p.Text)
				if loc.ok {
					t.probe("accessor-to-location")
				} else {
					t.probe("accessor-to-non-location")
				}
			}
			for i := range st.locs {
				for j := i + 1; j < len(st.locs); j++ {
					if st.locs[i].ok && st.locs[i] == st.locs[j] {
						t.probe("aliasing-accessors")
						return
					}
				}
			}
		}
		return o
	}

	np := 1 + rn(3)
	for i := 0; i < np; i++ {
		cfg := CfgSpec{Present: true}
		if chance(25) {
			cfg.Funcs = 1<<nFuncs - 1
		}
		var p *PathSpec
		switch rn(8) {
		case 0:
			p = &PathSpec{Text: "$", Prefix: "$", SingleValued: true}
		case 1, 2:
			p = genModelPathFor(st.real, false)
		default:
			p = genPathFor(st.real, cfg.Funcs, false, 4, 1)
		}
		rop := retrieve(p, cfg)
		if cfg.Funcs != 0 && chance(30) {
			rop.Arg2 = 1
		}
		t.ops = append(t.ops, rop)
		cases = append(cases, fnv(p.Text+"|"+snap))
	}
	nh := 2 + rn(11)
	for h := 0; h < nh; h++ {
		switch rn(8) {
		case 0, 1, 2, 3: // Set through accessor i
			pickI := rn(64 * 10)
			o := &Op{Kind: opCustom, Path: &PathSpec{Text: "Set"}}
			o.Do = func(t *Task, o *Op) {
				if st.dead {
					o.Got = "skipped"
					return
				}
				var cand []int
				for i, l := range st.locs {
					if l.ok && st.accs[i].Set != nil {
						cand = append(cand, i)
					}
				}
				if len(cand) == 0 {
					o.Got = "no settable accessor"
					return
				}
				i := cand[pickI%len(cand)]
				st.seq++
				var v interface{} = fmt.Sprintf("SET-%d", st.seq)
				switch pickI / 64 % 10 {
				case 0:
					v = nil // JSON null is a value like any other
				case 1:
					v = float64(st.seq)
				case 2:
					v = st.seq%2 == 0
				case 3:
					v = ""
				case 4:
					v = []interface{}{} // an empty array is a value too (and not null)
				case 5:
					v = map[string]interface{}{}
				}
				o.Path = &PathSpec{Text: st.accPath[i]}
				func() {
					defer func() {
						if r := recover(); r != nil {
							o.Got = panicName(r)
						}
					}()
					st.accs[i].Set(v)
				}()
				st.modelWrite(st.locs[i], deepCopy(v))
				if o.Got == "" {
					o.Got = fmt.Sprintf("accessor %d (%v) Set(%s)", i, st.locs[i], canon(v))
				}
				t.probe("set-through-accessor")
				st.verify(t, o, o.Got)
			}
			t.ops = append(t.ops, o)
		case 4, 5: // direct in-place update by the caller
			pickS := rn(1 << 16)
			o := &Op{Kind: opCustom, Path: &PathSpec{Text: "direct update"}}
			o.Do = func(t *Task, o *Op) {
				if st.dead {
					o.Got = "skipped"
					return
				}
				// prefer slots that accessors stand for; else any slot of the document
				var cand []location
				for _, l := range st.locs {
					if l.ok {
						cand = append(cand, l)
					}
				}
				_, _, slots := st.index()
				if len(cand) == 0 || pickS%3 == 0 {
					cand = slots
				}
				if len(cand) == 0 {
					o.Got = "no slot"
					return
				}
				l := cand[pickS%len(cand)]
				st.seq++
				v := fmt.Sprintf("DIR-%d", st.seq)
				st.realWrite(l, v)
				st.modelWrite(l, v)
				o.Got = fmt.Sprintf("caller wrote %q to %v", v, l)
				t.probe("direct-in-place-update")
				st.verify(t, o, o.Got)
			}
			t.ops = append(t.ops, o)
		case 6: // Get through every accessor (the oracle does exactly that)
			o := &Op{Kind: opCustom, Path: &PathSpec{Text: "Get all"}}
			o.Do = func(t *Task, o *Op) {
				if st.dead {
					o.Got = "skipped"
					return
				}
				o.Got = fmt.Sprintf("%d accessors", len(st.accs))
				st.verify(t, o, "Get")
			}
			t.ops = append(t.ops, o)
		default: // re-retrieval
			cfg := CfgSpec{Present: true}
			if chance(25) {
				// first a retrieval in which a user function panics half-way (the caller
				// recovers): what the retrievals after it return is judged as always
				pp := &PathSpec{Text: pick([]string{"$..*.id()", "$.*.id()", "$[*].id()", "$..*.tag()", "$[?(@.id())]", "$.*.cnt()"})}
				k := rn(4)
				acc := chance(70)
				po := &Op{Kind: opCustom, Path: pp, Cfg: CfgSpec{Present: true, Funcs: 1<<nFuncs - 1, Accessor: acc}}
				po.Do = func(t *Task, o *Op) {
					if st.dead {
						o.Got = "skipped"
						return
					}
					for f := range t.rec.Panics {
						t.rec.Panics[f] = 1 << uint(k)
					}
					_, o.Got = safeRetrieve(pp.Text, st.real, cfgArgs(o.Cfg))
					t.rec.Panics = [nFuncs]uint64{}
					if t.rec.Panicked > 0 {
						t.fault("callback-panicked")
					}
				}
				t.ops = append(t.ops, po)
			}
			p := genPathFor(st.real, 0, false, 4, 0)
			t.ops = append(t.ops, retrieve(p, cfg))
		}
	}
	w.cfg.Strategy = simrt.StratBoundary
	w.cfg.PoolPolicy = rn(5)
	w.cfg.MapPolicy = rn(5)
	res := w.run()
	res.Cases = cases
	return res
}
