// Command worker executes simulated runs of one property against the jsonpath build it is
// linked with (the instrumented copy for simulation, the pristine tree for one-shot
// reference processes).  It is started by bin/vsim; see DESIGN.md §2.6.
package main

import (
	"bufio"
	"encoding/json"
	"flag"
	"fmt"
	"os"
	"sort"
	"strings"

	"verif/simrt"
)

type runLine struct {
	T      string       `json:"t"` // "viol"
	I      int          `json:"i"`
	Seed   uint64       `json:"seed"`
	Viol   *Violation   `json:"viol,omitempty"`
	Tape   []uint32     `json:"tape,omitempty"`
	Sample []string     `json:"sample,omitempty"`
	Stats  *simrt.Stats `json:"stats,omitempty"`
	Digest uint64       `json:"digest,omitempty"`
	Corpus []CorpusItem `json:"corpus,omitempty"`
	Sched  []string     `json:"sched,omitempty"`
}

type summary struct {
	T         string            `json:"t"` // "summary"
	Prop      string            `json:"prop"`
	From, To  int               `json:"from"`
	Next      int               `json:"next"` // first run index not executed
	Runs      int               `json:"runs"`
	Ops       int               `json:"ops"`
	Judged    int               `json:"judged"`
	Steps     int64             `json:"steps"`
	Switches  int64             `json:"switches"`
	Aborted   int               `json:"aborted"`
	Probes    map[string]int    `json:"probes"`
	Faults    map[string]int    `json:"faults"`
	SwitchSig []uint64          `json:"switch_sigs"`
	Cases     []uint64          `json:"cases"`
	Samples   [][]string        `json:"samples"`
	Strategy  map[string]int    `json:"strategies"`
	Digests   map[string]uint64 `json:"digests,omitempty"`
	ODigests  map[string]uint64 `json:"odigests,omitempty"`
	Tainted   bool              `json:"tainted"`
	Sites     int               `json:"sites"`
	Race      bool              `json:"race"`
}

func splitmix(x uint64) uint64 {
	x += 0x9E3779B97F4A7C15
	x = (x ^ (x >> 30)) * 0xBF58476D1CE4E5B9
	x = (x ^ (x >> 27)) * 0x94D049BB133111EB
	return x ^ (x >> 31)
}

func runSeed(base uint64, prop string, i int) uint64 {
	return splitmix(base ^ splitmix(fnv(prop)+uint64(i)))
}

var tier = "quick"

// coldStart: the process must not parse anything before its (single) run.
var coldStart bool

func dispatch(prop string) *RunResult {
	switch prop {
	case "C04":
		return runC04()
	case "C05":
		return runC05()
	case "C06":
		if coldStart {
			return runC06Cold()
		}
		return runC06()
	case "C07":
		return runC07()
	case "C13":
		return runC13()
	case "C14":
		return runC14()
	case "C19":
		return runC19()
	}
	panic("unknown property " + prop)
}

var strategyNames = []string{"boundary", "random", "seam", "func", "pct"}

func main() {
	prop := flag.String("prop", "", "property id")
	seed := flag.Uint64("seed", 1, "base seed")
	from := flag.Int("from", 0, "first run index")
	to := flag.Int("to", 1, "one past the last run index")
	order := flag.String("order", "asc", "asc|desc: order in which the run indices are executed")
	tapeFile := flag.String("tape", "", "replay: JSON file holding {\"tape\":[...]}")
	nsamples := flag.Int("samples", 2, "runs to write out in the summary")
	digests := flag.Bool("digests", false, "emit per-run digests in the summary")
	tierF := flag.String("tier", "quick", "quick|thorough")
	traceRun := flag.Int("trace-run", -1, "debug: print the schedule trace of this run index to stderr")
	oneshotItem := flag.Int("oneshot-item", -1, "C19: execute this corpus item as the first library call of the process and print its outcome")
	emitC := flag.Bool("emit-corpus", false, "C19: print the corpus")
	expectFile := flag.String("expect", "", "C19: JSON array of fresh-process outcomes, one per corpus item")
	cold := flag.Bool("cold", false, "C06: cold start - nothing is parsed before the tasks start; one run per process")
	gstats := flag.Int("genstats", 0, "debug: measure the hit rate of the path generator")
	mstats := flag.Int("modelstats", 0, "debug: compare the reference model with the library")
	mpaths := flag.Int("modelpaths", 0, "debug: statistics of the model path generator")
	flag.Parse()
	if *mstats > 0 {
		modelStats(*mstats)
		return
	}
	if *mpaths > 0 {
		modelPathStats(*mpaths)
		return
	}
	if *gstats > 0 {
		genStats(*gstats)
		return
	}
	tier = *tierF
	out := bufio.NewWriterSize(os.Stdout, 1<<16)
	defer out.Flush()
	enc := json.NewEncoder(out)
	initReDoc()

	if *oneshotItem >= 0 {
		oneshot(*seed, *oneshotItem, enc)
		return
	}
	if *emitC {
		emitCorpus(*seed, enc)
		return
	}
	coldStart = *cold
	if !coldStart {
		initReFn()
		initLibraryErrors()
	}
	if *prop == "C19" {
		loadC19(*seed, *expectFile)
	}

	if *tapeFile != "" {
		b, err := os.ReadFile(*tapeFile)
		if err != nil {
			fmt.Fprintln(os.Stderr, "worker:", err)
			os.Exit(2)
		}
		var rf struct {
			Tape []uint32 `json:"tape"`
		}
		if err := json.Unmarshal(b, &rf); err != nil {
			fmt.Fprintln(os.Stderr, "worker:", err)
			os.Exit(2)
		}
		simrt.ResetRunStats()
		simrt.SetReplay(rf.Tape)
		simrt.TraceEnable(true)
		fmt.Fprintf(out, "B 0\n")
		out.Flush()
		res := dispatch(*prop)
		tp, _, _ := simrt.Tape()
		enc.Encode(runLine{T: "replayed", I: 0, Viol: res.Violation, Tape: tp, Sample: res.Sample, Stats: &res.Stats, Digest: res.Stats.Digest, Corpus: res.Corpus, Sched: simrt.TraceLines(400)})
		return
	}

	sum := summary{T: "summary", Prop: *prop, From: *from, To: *to, Probes: map[string]int{}, Faults: map[string]int{},
		Strategy: map[string]int{}, Sites: simrt.NumSites(), Race: simrt.RaceEnabled}
	if *digests {
		sum.Digests = map[string]uint64{}
		sum.ODigests = map[string]uint64{}
	}
	sigs := map[uint64]struct{}{}
	cases := map[uint64]struct{}{}
	idx := make([]int, 0, *to-*from)
	for i := *from; i < *to; i++ {
		idx = append(idx, i)
	}
	if *order == "desc" {
		sort.Sort(sort.Reverse(sort.IntSlice(idx)))
	}
	sum.Next = *to
	for n, i := range idx {
		fmt.Fprintf(out, "B %d\n", i)
		out.Flush()
		runNo = n + 1
		wide = tier == "thorough" && i%3 == 2
		rs := runSeed(*seed, *prop, i)
		simrt.ResetRunStats()
		simrt.Seed(rs)
		simrt.TraceEnable(i == *traceRun)
		res := dispatch(*prop)
		if i == *traceRun {
			for _, l := range simrt.TraceLines(100000) {
				fmt.Fprintln(os.Stderr, l)
			}
		}
		sum.Runs++
		sum.Ops += res.Ops
		sum.Judged += res.Judged
		sum.Steps += res.Stats.Steps
		sum.Switches += res.Stats.Switches
		for k, v := range res.Probes {
			sum.Probes[k] += v
		}
		for k, v := range res.Faults {
			sum.Faults[k] += v
		}
		if res.Stats.Switches > 0 {
			sigs[res.Stats.SwitchSig] = struct{}{}
		}
		for _, c := range res.Cases {
			cases[c] = struct{}{}
		}
		if res.Stats.Abort != 0 {
			sum.Aborted++
		}
		if sum.Digests != nil {
			sum.Digests[fmt.Sprint(i)] = res.Stats.Digest
			sum.ODigests[fmt.Sprint(i)] = res.Stats.ODigest
		}
		if len(sum.Samples) < *nsamples && len(res.Sample) > 0 {
			sum.Samples = append(sum.Samples, res.Sample)
		}
		if res.Violation != nil {
			tp, _, over := simrt.Tape()
			if over {
				tp = nil
			}
			enc.Encode(runLine{T: "viol", I: i, Seed: rs, Viol: res.Violation, Tape: tp, Sample: res.Sample, Stats: &res.Stats})
			out.Flush()
		}
		if len(res.Corpus) > 0 {
			enc.Encode(runLine{T: "corpus", I: i, Seed: rs, Corpus: res.Corpus})
		}
		if res.Violation != nil || res.Tainted {
			sum.Tainted = res.Tainted
			if n+1 < len(idx) {
				sum.Next = idx[n+1]
			}
			break
		}
	}
	for k := range sigs {
		sum.SwitchSig = append(sum.SwitchSig, k)
	}
	for k := range cases {
		sum.Cases = append(sum.Cases, k)
	}
	enc.Encode(sum)
}

func strategyName(s int) string {
	if s >= 0 && s < len(strategyNames) {
		return strategyNames[s]
	}
	return "?"
}

var _ = strings.Contains
