package main

import (
	"fmt"
	"strings"
	"sync"

	"verif/simrt"

	"github.com/AsaiYusuke/jsonpath"
)

// The function menu (DESIGN.md §4 "Configs").  Every function records its call, obeys the
// fault plan of the operation in progress, and yields to the scheduler on entry.
const (
	fID    = iota // filter: identity
	fTag          // filter: tagged wrapper of the argument
	fFF           // filter: identity (conventionally the one made to fail)
	fYF           // filter: yields and re-enters the library, then identity
	fCnt          // aggregate: count
	fFirst        // aggregate: first element
	fAll          // aggregate: copy of the list
	fAF           // aggregate: copy of the list (conventionally the one made to fail)
	fYA           // aggregate: yields and re-enters the library, then count
	fRet          // aggregate: returns the very slice it was given (as user code may well do)
	nFuncs
)

var funcNames = [nFuncs]string{"id", "tag", "ff", "yf", "cnt", "first", "all", "af", "ya", "ret"}

func isAggregate(f int) bool { return f >= fCnt }

// CallRec is one recorded callback invocation.
type CallRec struct {
	Func    int
	Variant int
	Arg     string
	Fail    bool
}

func callName(f, variant int) string {
	if variant > 0 {
		return funcNames[f] + "#" + string(rune('0'+variant))
	}
	return funcNames[f]
}

// Recorder collects the callback history of one operation of one task.
type Recorder struct {
	Calls    []CallRec
	Count    [nFuncs]int
	Faults   [nFuncs]uint64 // bit i set: i-th call of that function fails
	Panics   [nFuncs]uint64 // bit i set: i-th call of that function panics (the caller recovers)
	LibErr   bool           // failing calls return an error value of the library's own runtime error types
	Nested   int            // nested library calls made
	RetAcc   bool           // id() and first() return a jsonpath.Accessor of their own making (as a function that uses accessor-mode Retrieve itself would)
	Panicked int            // planned panics raised
	Bad      string         // first anomaly seen inside a callback
	Self     fnType         // the parsed function being evaluated (re-entered by yf/ya now and then)
	depth    int
}

func (r *Recorder) reset(f [nFuncs]uint64) {
	r.Calls = r.Calls[:0]
	r.Count = [nFuncs]int{}
	r.Faults = f
	r.Panics = [nFuncs]uint64{}
	r.LibErr = false
	r.Nested = 0
	r.Self = nil
	r.depth = 0
	r.Panicked = 0
	r.Bad = ""
}

func (r *Recorder) log() string {
	var b strings.Builder
	for _, c := range r.Calls {
		b.WriteString(callName(c.Func, c.Variant))
		if c.Fail {
			b.WriteString("!")
		}
		b.WriteString("(")
		b.WriteString(c.Arg)
		b.WriteString(");")
	}
	if r.Bad != "" {
		b.WriteString("BAD:")
		b.WriteString(r.Bad)
	}
	return b.String()
}

// curRec[i] is the recorder of task i's operation in progress; [MaxTasks] is the main
// goroutine (solo executions).  Each slot is written only by its owner.
var curRec [simrt.MaxTasks + 1]*Recorder

func recSlot() int {
	// a goroutine the library started on behalf of a caller logs into that caller's recorder
	c := simrt.CurRoot()
	if c < 0 {
		return simrt.MaxTasks
	}
	return c
}

// recMu orders callbacks that the library might invoke from goroutines of its own (never
// contended under the simulator: one task runs at a time; it only gives the race detector the
// edge a user's own locking would give).
var recMu sync.Mutex

// plannedPanic is what a user function panics with when the fault plan says so.
type plannedPanic struct{ fn string }

func (p plannedPanic) String() string { return "planned panic of " + p.fn }

type errPlanned struct{ fn string }

func (e errPlanned) Error() string { return "planned failure of " + e.fn }

// libraryErrors are error values produced by the library itself (a user function that uses
// jsonpath internally may well return those).
var libraryErrors []error

func initLibraryErrors() {
	_, e1 := jsonpath.Retrieve(`$.nope`, map[string]interface{}{})
	_, e2 := jsonpath.Retrieve(`$.a.b`, map[string]interface{}{"a": 1.0})
	libraryErrors = []error{e1, e2}
}

// plannedError is what a failing user function returns: mostly a harness error, for every
// third failing call an error value of the library's own runtime error types.
// errList is an error whose dynamic type is not comparable (a slice): code that compares
// error values with == panics on it.
type errList []string

func (e errList) Error() string { return "planned failure " + strings.Join(e, ",") }

func plannedError(r *Recorder, f, i int) error {
	if i%3 == 1 && !r.LibErr {
		return errList{funcNames[f], "uncomparable"}
	}
	if len(libraryErrors) > 0 && (r.LibErr || i%3 == 2) {
		return libraryErrors[(f+i)%len(libraryErrors)]
	}
	return errPlanned{funcNames[f]}
}

// nested library use from inside callbacks
var (
	reDoc    interface{}
	reExpect string
	reFn     func(interface{}) ([]interface{}, error)
)

const rePath = `$.k[?(@.v > 1)].v`

func initReDoc() {
	reDoc = map[string]interface{}{"k": []interface{}{
		map[string]interface{}{"v": 1.0}, map[string]interface{}{"v": 2.0}, map[string]interface{}{"v": 3.0}}}
	reExpect = "[f:2,f:3]|nil"
}

// initReFn parses the nested path once (simulation workers only; a pristine one-shot
// process must not parse anything before the call it measures).
func initReFn() {
	var err error
	reFn, err = jsonpath.Parse(rePath)
	if err != nil {
		panic(err)
	}
}

func reenter(r *Recorder) {
	// every other time the user function re-enters the very function that is calling it (a
	// recursive walk over a tree does that), one level deep
	// (the Recorder's counters are guarded by recMu: a library that calls user functions from
	// goroutines of its own calls them concurrently)
	recMu.Lock()
	self := r.Self != nil && r.depth == 0 && r.Nested%2 == 1
	selfFn := r.Self
	if self {
		r.depth++
	}
	recMu.Unlock()
	if self {
		func() {
			defer func() { recover() }()
			selfFn(reDoc)
		}()
		recMu.Lock()
		r.depth--
		recMu.Unlock()
	}
	var res []interface{}
	var err error
	if simrt.GetMode() == simrt.ModeSolo && reFn != nil {
		// a reference execution may run while another task sits inside Parse: use the
		// function parsed at start-up
		res, err = reFn(reDoc)
	} else {
		res, err = jsonpath.Retrieve(rePath, reDoc)
	}
	got := canon(res) + "|" + canonErr(err)
	recMu.Lock()
	r.Nested++
	if got != reExpect && r.Bad == "" {
		r.Bad = "nested retrieve returned " + got
	}
	recMu.Unlock()
}

func record(f, variant int, arg interface{}) (*Recorder, bool, int) {
	simrt.CallbackSeam()
	recMu.Lock()
	defer recMu.Unlock()
	r := curRec[recSlot()]
	if r == nil {
		panic(fmt.Sprintf("callback %s without recorder", funcNames[f]))
	}
	i := r.Count[f]
	r.Count[f]++
	fail := i < 64 && r.Faults[f]&(1<<uint(i)) != 0
	r.Calls = append(r.Calls, CallRec{Func: f, Variant: variant, Arg: canonArg(arg), Fail: fail})
	if i < 64 && r.Panics[f]&(1<<uint(i)) != 0 {
		r.Panicked++
		panic(plannedPanic{funcNames[f]})
	}
	return r, fail, i
}

// Functions of different Config variants carry the same names but behave differently, so
// that a function leaking from one Config into a call made with another is visible.
func mkFilter(f, variant int) func(interface{}) (interface{}, error) {
	return func(v interface{}) (interface{}, error) {
		r, fail, idx := record(f, variant, v)
		if f == fYF {
			reenter(r)
		}
		if fail {
			return nil, plannedError(r, f, idx)
		}
		if f == fTag {
			return tagOf(v, variant), nil
		}
		if r.RetAcc && f == fID {
			return foreignAccessor(v), nil
		}
		return v, nil
	}
}

// foreignAccessor is an Accessor that belongs to the user function (it writes into a cell of
// the function's own); to the library it is a value like any other.
func foreignAccessor(v interface{}) jsonpath.Accessor {
	cell := []interface{}{v}
	return jsonpath.Accessor{
		Get: func() interface{} { return cell[0] },
		Set: func(x interface{}) { cell[0] = x },
	}
}

func tagOf(v interface{}, variant int) interface{} {
	if variant > 0 {
		return map[string]interface{}{"tag": v, "variant": float64(variant)}
	}
	return map[string]interface{}{"tag": v}
}

func countOf(n, variant int) interface{} { return float64(n + 1000*variant) }

func mkAggregate(f, variant int) func([]interface{}) (interface{}, error) {
	return func(vs []interface{}) (interface{}, error) {
		r, fail, idx := record(f, variant, listArg(vs))
		if f == fYA {
			reenter(r)
		}
		if fail {
			return nil, plannedError(r, f, idx)
		}
		switch f {
		case fCnt, fYA:
			return countOf(len(vs), variant), nil
		case fFirst:
			if len(vs) == 0 {
				return nil, nil
			}
			if r.RetAcc {
				return foreignAccessor(vs[0]), nil
			}
			return vs[0], nil
		case fRet:
			return vs, nil
		default:
			out := make([]interface{}, len(vs))
			copy(out, vs)
			return out, nil
		}
	}
}

// listArg copies the aggregate's argument so that the record does not alias a pooled buffer.
func listArg(vs []interface{}) interface{} {
	if vs == nil {
		return []interface{}(nil)
	}
	out := make([]interface{}, len(vs))
	copy(out, vs)
	return out
}

// CfgSpec describes a Config: which menu functions are registered, and accessor mode.
// Present=false means "no Config argument at all".
type CfgSpec struct {
	Present  bool
	Funcs    uint32 // bit f: function f registered
	Accessor bool
	Variant  int // which behaviour the registered functions have (same names, different functions)
	// Replaced: the Config as it is after the caller "modified it after Parse": every menu
	// function registered and replaced by one returning a marker, accessor mode set.
	Replaced bool
	// Script: this Config is one of a pair built as  A := <the functions above>; B := A (struct
	// copy); B registers Extra in addition.  1: the call uses A, 2: the call uses B.
	Script int
	Extra  int
}

func replacedFilter(v interface{}) (interface{}, error) { return "REPLACED-AFTER-PARSE", nil }
func replacedAggregate(v []interface{}) (interface{}, error) {
	return "REPLACED-AFTER-PARSE", nil
}

// modifyConfig is what the caller does to a Config value it keeps using after Parse.
func modifyConfig(cfg *jsonpath.Config) {
	for f := 0; f < nFuncs; f++ {
		if isAggregate(f) {
			cfg.SetAggregateFunction(funcNames[f], replacedAggregate)
		} else {
			cfg.SetFilterFunction(funcNames[f], replacedFilter)
		}
	}
	cfg.SetAccessorMode()
}

func (c CfgSpec) String() string {
	if !c.Present {
		return "noconfig"
	}
	if c.Replaced {
		return "cfg{every function replaced after an earlier Parse, ACCESSOR}"
	}
	s := "cfg{"
	for f := 0; f < nFuncs; f++ {
		if c.Funcs&(1<<uint(f)) != 0 {
			s += funcNames[f] + " "
		}
	}
	if c.Accessor {
		s += "ACCESSOR"
	}
	if c.Variant > 0 {
		s += " variant" + string(rune('0'+c.Variant))
	}
	switch c.Script {
	case 1:
		s += " (original of a pair whose struct copy then registered " + funcNames[c.Extra] + ")"
	case 2:
		s += " (struct copy that registered " + funcNames[c.Extra] + " in addition)"
	}
	return s + "}"
}

// buildConfigPair builds A from the spec's functions, copies it (B := A) and lets the copy
// register the Extra function.
func buildConfigPair(c CfgSpec) (a, b jsonpath.Config) {
	base := c
	base.Script = 0
	a = buildConfig(base)
	b = a
	if isAggregate(c.Extra) {
		b.SetAggregateFunction(funcNames[c.Extra], mkAggregate(c.Extra, c.Variant))
	} else {
		b.SetFilterFunction(funcNames[c.Extra], mkFilter(c.Extra, c.Variant))
	}
	return a, b
}

func buildConfig(c CfgSpec) jsonpath.Config {
	if c.Script != 0 {
		a, b := buildConfigPair(c)
		if c.Script == 1 {
			return a
		}
		return b
	}
	cfg := jsonpath.Config{}
	if c.Replaced {
		modifyConfig(&cfg)
		return cfg
	}
	for f := 0; f < nFuncs; f++ {
		if c.Funcs&(1<<uint(f)) == 0 {
			continue
		}
		if isAggregate(f) {
			cfg.SetAggregateFunction(funcNames[f], mkAggregate(f, c.Variant))
		} else {
			cfg.SetFilterFunction(funcNames[f], mkFilter(f, c.Variant))
		}
	}
	if c.Accessor {
		cfg.SetAccessorMode()
	}
	return cfg
}

func cfgArgs(c CfgSpec) []jsonpath.Config {
	if !c.Present {
		return nil
	}
	return []jsonpath.Config{buildConfig(c)}
}
