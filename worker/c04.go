package main

import "verif/simrt"

// C04 — retrieval never modifies the source document (DESIGN.md §4).
//
// 1-8 tasks evaluate filter-heavy paths on shared documents (also through shared parsed
// functions whose tree state changes with the call history, and in accessor mode without
// calling Set).  After every completed operation of any task every document is compared
// with the snapshot taken when it was generated.
func runC04() *RunResult {
	w := &World{prop: "C04", checkDocsAfterOp: true, selfReentry: true}
	nt := 1
	if chance(40) {
		nt = 2 + rn(widen(7))
	}
	dg := docGen{useNumber: chance(30)}
	trap := chance(25)
	nd := 1 + rn(4)
	base := dg.doc(trap)
	w.docs = append(w.docs, newDoc(base))
	for i := 1; i < nd; i++ {
		if chance(50) {
			w.docs = append(w.docs, newDoc(dg.variant(base)))
		} else {
			w.docs = append(w.docs, newDoc(dg.doc(trap)))
		}
	}
	cases := []uint64{}
	// shared functions (parsed before the tasks start, evaluated only by the tasks)
	simrt.SetMode(simrt.ModeSolo)
	ns := 1 + rn(4)
	for i := 0; i < ns; i++ {
		cfg := genCfg(true)
		p := filterHeavyPath(w.docs[rn(nd)].Val, cfg.Funcs, trap)
		w.shared = append(w.shared, soloParse(p, cfg))
		cases = append(cases, fnv(p.Text+"|"+w.docs[0].Snap))
	}
	simrt.SetMode(simrt.ModeOff)
	for ti := 0; ti < nt; ti++ {
		t := &Task{id: ti}
		n := 2 + rn(8)
		for k := 0; k < n; k++ {
			if chance(60) {
				s := rn(ns)
				sp := w.shared[s]
				t.ops = append(t.ops, &Op{Kind: opCallShared, Slot: s, Doc: rn(nd), Path: sp.Path, Cfg: sp.Cfg, Faults: drawFaults(sp.Path.UsesFuncs), Panics: drawPanics(sp.Path.UsesFuncs)})
			} else {
				cfg := genCfg(true)
				di := rn(nd)
				p := filterHeavyPath(w.docs[di].Val, cfg.Funcs, trap)
				if chance(25) {
					di = rn(nd)
				}
				t.ops = append(t.ops, &Op{Kind: opRetrieve, Path: p, Cfg: cfg, Doc: di, Faults: drawFaults(p.UsesFuncs), Panics: drawPanics(p.UsesFuncs)})
				cases = append(cases, fnv(p.Text+"|"+w.docs[0].Snap))
			}
		}
		w.tasks = append(w.tasks, t)
	}
	drawSchedule(nt, &w.cfg)
	res := w.run()
	res.Judged = res.Ops * nd
	res.Cases = cases
	return res
}

// filterHeavyPath biases generation towards filters combining ==, !=, &&, ||, ! over
// operands that are present, missing or $-rooted.
func filterHeavyPath(doc interface{}, funcs uint32, trap bool) *PathSpec {
	if chance(30) {
		return genPathFor(doc, funcs, trap, 4, 2)
	}
	spec := &PathSpec{}
	g := &pathGen{funcs: funcs, trap: trap, spec: spec, cur: doc, aware: doc != nil}
	s := "$"
	if chance(40) {
		t, _ := g.step()
		s += t
	}
	if chance(15) {
		s += pick([]string{".*", "..*", "[*]", "[0:3]"})
		g.cur = nil
	}
	g.members = membersOf(g.cur)
	s += "[?(" + g.query(3) + ")]"
	g.members = nil
	g.cur = nil
	if chance(40) {
		t, _ := g.step()
		s += t
	}
	spec.Prefix = s
	if chance(20) {
		if f, ok := g.anyFunc(); ok {
			spec.Funcs = append(spec.Funcs, f)
			s += "." + funcNames[f] + "()"
		}
	}
	spec.Text = s
	return spec
}
