package main

import (
	"verif/simrt"

	"github.com/AsaiYusuke/jsonpath"
)

// C06 — Parse and parsed functions are safe for concurrent use (DESIGN.md §4).
//
// Race-detector build.  2-16 tasks mix calls of shared parsed functions (handed over
// unevaluated, or warmed up) on shared read-only documents with Parse/Retrieve of their
// own paths (some failing, some hit by an injected panic), calls of functions they parsed
// themselves and of functions another task published.  Oracles: the race detector (its
// happens-before graph holds only the library's own synchronisation), run-alone equality of
// every outcome, and progress (no deadlock, bounded steps).
func runC06() *RunResult {
	w := &World{prop: "C06", judgeOutcome: true, race: true}
	// In 40% of the runs nothing is evaluated before the tasks start: the run-alone
	// expectations are computed after the tasks were joined.  Otherwise the pre-phase would
	// always be the first to touch whatever the library initialises or grows lazily (a shared
	// table, a cache), sequentially, and the tasks would never do it concurrently.
	post := chance(40)
	nt := 2 + rn(3)
	if chance(25) {
		nt = 2 + rn(15)
	}
	dg := docGen{useNumber: chance(30)}
	trap := chance(25)
	nd := 1 + rn(3)
	base := dg.doc(trap)
	w.docs = append(w.docs, newDoc(base))
	for i := 1; i < nd; i++ {
		if chance(50) {
			w.docs = append(w.docs, newDoc(dg.variant(base)))
		} else {
			w.docs = append(w.docs, newDoc(dg.doc(trap)))
		}
	}
	cases := []uint64{}
	ref := &Recorder{}

	simrt.SetMode(simrt.ModeSolo)
	// shared functions: parsed before the tasks start; most are left unevaluated so that the
	// first evaluation (which is when state-dependent writes happen) is done by the tasks
	ns := 1 + rn(4)
	warmed := make([]bool, ns)
	for i := 0; i < ns; i++ {
		cfg := genCfg(true)
		var p *PathSpec
		if chance(50) {
			p = filterHeavyPath(w.docs[rn(nd)].Val, cfg.Funcs, trap)
		} else {
			p = genPathFor(w.docs[rn(nd)].Val, cfg.Funcs, trap, 4, 2)
		}
		pf := soloParse(p, cfg)
		if !post && chance(25) && pf.Fn != nil {
			soloEval(pf, deepCopy(w.docs[0].Val), [nFuncs]uint64{}, ref) // warmed up
			warmed[i] = true
		}
		w.shared = append(w.shared, pf)
		cases = append(cases, fnv(p.Text+"|"+w.docs[0].Snap))
	}
	var deferred []func()
	expectCallP := func(p *PathSpec, c CfgSpec, doc int, f, pn [nFuncs]uint64) (string, string) {
		pf := soloParse(p, c)
		return soloEvalP(pf, deepCopy(w.docs[doc%nd].Val), f, pn, ref)
	}
	// expect computes an operation's expectation now (pre mode) or later (post mode)
	expect := func(o *Op, f func() (string, string)) {
		if post {
			deferred = append(deferred, func() { o.Expect, o.ExpectLog = f(); o.HasExpect = true })
			return
		}
		o.Expect, o.ExpectLog = f()
		o.HasExpect = true
	}
	expectCall := func(p *PathSpec, c CfgSpec, doc int, f [nFuncs]uint64) (string, string) {
		return expectCallP(p, c, doc, f, [nFuncs]uint64{})
	}
	// a few (path, Config VALUE) pairs that several tasks parse at about the same time: the very
	// same Config value (same function tables) and the very same path, valid or failing
	type hotParse struct {
		p   *PathSpec
		cfg CfgSpec
		val []jsonpath.Config
	}
	var hot []hotParse
	for i := rn(3); i > 0; i-- {
		cfg := genCfg(true)
		cfg.Present = true
		var p *PathSpec
		switch rn(3) {
		case 0:
			p = genFailPath()
		case 1:
			p = &PathSpec{Text: genPathFor(w.docs[0].Val, cfg.Funcs, trap, 3, 0).Text + ".nofn()"}
		default:
			p = genPathFor(w.docs[rn(nd)].Val, cfg.Funcs, trap, 4, 2)
		}
		hot = append(hot, hotParse{p, cfg, []jsonpath.Config{buildConfig(cfg)}})
	}
	pub := make([]*PathSpec, nt) // the one path each task may publish
	pubCfg := make([]CfgSpec, nt)
	for ti := 0; ti < nt; ti++ {
		t := &Task{id: ti}
		n := 2 + rn(10)
		var slotPath [2]*PathSpec
		var slotCfg [2]CfgSpec
		for k := 0; k < n; k++ {
			switch rn(12) {
			case 0, 1, 2, 3, 4:
				s := rn(ns)
				sp := w.shared[s]
				o := &Op{Kind: opCallShared, Slot: s, Doc: rn(nd), Path: sp.Path, Cfg: sp.Cfg, Faults: drawFaults(sp.Path.UsesFuncs), Panics: drawPanics(sp.Path.UsesFuncs)}
				expect(o, func() (string, string) { return expectCallP(sp.Path, sp.Cfg, o.Doc, o.Faults, o.Panics) })
				t.ops = append(t.ops, o)
			case 5, 6:
				cfg := genCfg(true)
				var p *PathSpec
				switch rn(6) {
				case 0:
					p = genFailPath()
				case 1:
					p = genInternalPanicPath(cfg.Funcs)
				default:
					p = genPathFor(w.docs[rn(nd)].Val, cfg.Funcs, trap, 4, 2)
				}
				slot := rn(2)
				if slot == 0 && pub[ti] != nil {
					slot = 1 // slot 0 keeps the publishable path
				}
				o := &Op{Kind: opParse, Path: p, Cfg: cfg, Slot: slot}
				if len(hot) > 0 && chance(40) {
					h := hot[rn(len(hot))]
					p, cfg = h.p, h.cfg
					o.Path, o.Cfg, o.CfgVal = p, cfg, h.val
				}
				expect(o, func() (string, string) { return soloParse(p, cfg).Out, "" })
				t.ops = append(t.ops, o)
				slotPath[slot], slotCfg[slot] = p, cfg
				if slot == 0 {
					pub[ti], pubCfg[ti] = p, cfg
				}
				cases = append(cases, fnv(p.Text+"|"+w.docs[0].Snap))
			case 7:
				slot := rn(2)
				if slotPath[slot] == nil {
					continue
				}
				o := &Op{Kind: opCall, Slot: slot, Doc: rn(nd), Path: slotPath[slot], Cfg: slotCfg[slot], Faults: drawFaults(slotPath[slot].UsesFuncs)}
				expect(o, func() (string, string) { return expectCall(o.Path, o.Cfg, o.Doc, o.Faults) })
				t.ops = append(t.ops, o)
			case 8:
				cfg := genCfg(true)
				di := rn(nd)
				p := genPathFor(w.docs[di].Val, cfg.Funcs, trap, 3, 1)
				if chance(15) {
					p = genFailPath()
				}
				o := &Op{Kind: opRetrieve, Path: p, Cfg: cfg, Doc: di, Faults: drawFaults(p.UsesFuncs)}
				expect(o, func() (string, string) {
					pf := soloParse(p, cfg)
					e, l := soloEval(pf, deepCopy(w.docs[o.Doc%nd].Val), o.Faults, ref)
					if pf.Fn == nil {
						e = pf.Out
					}
					return e, l
				})
				t.ops = append(t.ops, o)
			case 9:
				// Parse hit by an injected panic: only what follows is judged
				cfg := genCfg(true)
				p := genPathFor(w.docs[rn(nd)].Val, cfg.Funcs, trap, 4, 2)
				t.ops = append(t.ops, &Op{Kind: opParseInject, Path: p, Cfg: cfg, Inject: 1 + rn(120)})
			case 10:
				if pub[ti] != nil {
					t.ops = append(t.ops, &Op{Kind: opPublish, Slot: 0})
				}
			case 11:
				t.ops = append(t.ops, &Op{Kind: opCallPublished, Slot: rn(nt), Doc: rn(nd)})
			}
		}
		w.tasks = append(w.tasks, t)
	}
	// expectations of calls of published functions: the publisher's only publishable path
	for _, t := range w.tasks {
		for _, o := range t.ops {
			if o.Kind == opCallPublished {
				k := o.Slot % nt
				if pub[k] != nil {
					o.Path, o.Cfg = pub[k], pubCfg[k]
					o := o
					expect(o, func() (string, string) { return expectCall(pub[k], pubCfg[k], o.Doc, o.Faults) })
				}
			}
		}
	}
	simrt.SetMode(simrt.ModeOff)
	drawSchedule(nt, &w.cfg)

	if post {
		w.judgeOutcome = false // judged after the join, below
	}
	res := w.run()
	w.progressVerdict(res)
	if post && res.Violation == nil && res.Stats.Abort == 0 {
		simrt.SetMode(simrt.ModeSolo)
		for _, f := range deferred {
			f()
		}
		simrt.SetMode(simrt.ModeOff)
		res.Probes["expectations-computed-after-the-concurrent-phase"]++
	judge:
		for _, t := range w.tasks {
			for _, o := range t.ops {
				if !o.Done || !o.HasExpect || o.Got == "NOTHING-PUBLISHED" {
					continue
				}
				res.Judged++
				if o.Got != o.Expect || (o.GotLog != o.ExpectLog && o.Kind != opParse) {
					res.Violation = &Violation{Class: "C06:outcome-differs-from-run-alone", Key: pathKey(o),
						Detail: o.String() + "\n  expected (computed after the tasks were joined) " + clip(o.Expect, 300) + " log=" + clip(o.ExpectLog, 200)}
					break judge
				}
			}
		}
	}
	// reach probe: a shared function that nobody evaluated before the tasks started is called
	// by two or more tasks (its first evaluation happens under the scheduler)
	for si := range w.shared {
		if warmed[si] {
			continue
		}
		callers := 0
		for _, t := range w.tasks {
			for _, o := range t.ops {
				if o.Kind == opCallShared && o.Slot == si && o.Done {
					callers++
					break
				}
			}
		}
		if callers >= 2 {
			res.Probes["unevaluated-shared-function-called-by-several-tasks"]++
		}
	}
	// shared documents are inspected only after all tasks have been joined: while tasks run,
	// the race detector is what watches them
	if res.Violation == nil {
		for i, d := range w.docs {
			if got := canon(d.Val); got != d.Snap {
				res.Violation = &Violation{Class: "C06:shared-document-modified", Key: "",
					Detail: "shared read-only document " + itoa(i) + " changed:\n  before " + clip(d.Snap, 300) + "\n  after  " + clip(got, 300)}
			}
		}
	}
	res.Cases = cases
	return res
}

func itoa(i int) string {
	if i == 0 {
		return "0"
	}
	s := ""
	neg := i < 0
	if neg {
		i = -i
	}
	for i > 0 {
		s = string(rune('0'+i%10)) + s
		i /= 10
	}
	if neg {
		s = "-" + s
	}
	return s
}

// runC06Cold is the cold-start variant: the process has not parsed anything yet, so the very
// first Parse calls of the process (lazy initialisation of the parser) happen concurrently.
// Expectations are computed after the tasks were joined.
func runC06Cold() *RunResult {
	w := &World{prop: "C06", race: true}
	nt := 2 + rn(6)
	dg := docGen{useNumber: chance(30)}
	nd := 1 + rn(2)
	for i := 0; i < nd; i++ {
		w.docs = append(w.docs, newDoc(dg.doc(false)))
	}
	for ti := 0; ti < nt; ti++ {
		t := &Task{id: ti}
		n := 1 + rn(4)
		for k := 0; k < n; k++ {
			cfg := genCfg(true)
			di := rn(nd)
			var p *PathSpec
			switch rn(8) {
			case 0:
				p = genFailPath()
			default:
				p = genPathFor(w.docs[di].Val, cfg.Funcs, false, 3, 1)
			}
			if chance(50) {
				t.ops = append(t.ops, &Op{Kind: opRetrieve, Path: p, Cfg: cfg, Doc: di})
			} else {
				t.ops = append(t.ops, &Op{Kind: opParse, Path: p, Cfg: cfg, Slot: 0})
				t.ops = append(t.ops, &Op{Kind: opCall, Slot: 0, Path: p, Cfg: cfg, Doc: di})
			}
		}
		w.tasks = append(w.tasks, t)
	}
	// contention right at the first lock: small random gaps or a switch at the lock seams
	w.cfg.Strategy = simrt.StratRandom
	w.cfg.GapMean = []int{2, 8, 32}[rn(3)]
	if chance(50) {
		w.cfg.Strategy = simrt.StratSeam
		w.cfg.TargetSeam = []int{simrt.SeamBeforeLock - simrt.MaxSites, simrt.SeamAfterLock - simrt.MaxSites, simrt.SeamBeforeUnlock - simrt.MaxSites}[rn(3)]
		w.cfg.GapMean = 64
	}
	w.cfg.PoolPolicy = rn(5)
	w.cfg.MapPolicy = rn(5)
	res := w.run()
	w.progressVerdict(res)
	if res.Violation != nil || res.Stats.Abort != 0 {
		return res
	}
	// post-phase: run-alone expectations
	simrt.SetMode(simrt.ModeSolo)
	ref := &Recorder{}
	for _, t := range w.tasks {
		var last *ParsedFn
		for _, o := range t.ops {
			if !o.Done {
				continue
			}
			exp, explog := "", ""
			switch o.Kind {
			case opParse:
				last = soloParse(o.Path, o.Cfg)
				exp = last.Out
			case opCall:
				pf := soloParse(o.Path, o.Cfg)
				exp, explog = soloEval(pf, deepCopy(w.docs[o.Doc%nd].Val), o.Faults, ref)
			case opRetrieve:
				pf := soloParse(o.Path, o.Cfg)
				exp, explog = soloEval(pf, deepCopy(w.docs[o.Doc%nd].Val), o.Faults, ref)
				if pf.Fn == nil {
					exp = pf.Out
				}
			}
			res.Judged++
			if o.Got != exp || o.GotLog != explog {
				res.Violation = &Violation{Class: "C06:outcome-differs-from-run-alone", Key: o.Path.Text,
					Detail: "cold start (first Parse calls of the process made concurrently): " + o.String() + "\n  expected " + clip(exp, 300) + " log=" + clip(explog, 200)}
				break
			}
		}
		_ = last
		if res.Violation != nil {
			break
		}
	}
	simrt.SetMode(simrt.ModeOff)
	res.Probes["cold-start-run"]++
	return res
}
