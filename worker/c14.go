package main

import (
	"fmt"
	"strings"

	"verif/simrt"

	"github.com/AsaiYusuke/jsonpath"
)

// C14 — functions see every selected value once, in order; aggregates see all of them
// (DESIGN.md §4).  Fault enumeration: for a case whose fault-free evaluation makes n <= 8
// callback calls, every subset of failing calls is executed.

// perFuncLog renders the calls grouped by function (the property orders the calls of one
// function, not calls of different functions against each other).
func perFuncLog(calls []CallRec) string {
	var b strings.Builder
	for f := 0; f < nFuncs; f++ {
		first := true
		for _, c := range calls {
			if c.Func != f {
				continue
			}
			if first {
				b.WriteString(callName(f, c.Variant) + ":")
				first = false
			}
			if c.Fail {
				b.WriteByte('!')
			}
			b.WriteString("(" + c.Arg + ")")
		}
		if !first {
			b.WriteByte(';')
		}
	}
	return b.String()
}

// modelRetAcc: the case being modelled has id()/first() return Accessors of their own.
var modelRetAcc bool

// plainView unwraps accessors: C14 is about the values, not about the wrapping.
func plainView(res []interface{}) []interface{} {
	out := make([]interface{}, len(res))
	for i, e := range res {
		if a, ok := e.(jsonpath.Accessor); ok && a.Get != nil {
			out[i] = a.Get()
		} else {
			out[i] = e
		}
	}
	return out
}

type c14Expect struct {
	log      string   // per-function call log
	result   string   // canon of the plain result, or "" when an error is expected
	errType  string   // expected error type when result == ""
	failedFn []string // names of functions that failed under the plan (error must name one)
	calls    []CallRec
}

// modelFunctions is the 40-line protocol model: it applies the function chain to the
// values V selected by the prefix.
func modelFunctions(V []interface{}, single bool, funcs []int, faults [nFuncs]uint64, variant int) c14Expect {
	var e c14Expect
	list := V
	var count [nFuncs]int
	call := func(f int, arg interface{}) bool {
		i := count[f]
		count[f]++
		fail := i < 64 && faults[f]&(1<<uint(i)) != 0
		e.calls = append(e.calls, CallRec{Func: f, Variant: variant, Arg: canonArg(arg), Fail: fail})
		if fail {
			e.failedFn = append(e.failedFn, funcNames[f])
		}
		return !fail
	}
	for _, f := range funcs {
		if len(list) == 0 {
			break
		}
		if !isAggregate(f) {
			var next []interface{}
			for _, v := range list {
				if call(f, v) {
					if f == fTag {
						next = append(next, tagOf(v, variant))
					} else if f == fID && modelRetAcc {
						next = append(next, foreignAccessor(v))
					} else {
						next = append(next, v)
					}
				}
			}
			list = next
			continue
		}
		arg := list
		if single && len(list) == 1 {
			if arr, ok := list[0].([]interface{}); ok {
				arg = arr
			}
		}
		if !call(f, listArg(arg)) {
			list = nil
			continue
		}
		var r interface{}
		switch f {
		case fCnt, fYA:
			r = countOf(len(arg), variant)
		case fFirst:
			if len(arg) > 0 {
				r = arg[0]
				if modelRetAcc {
					r = foreignAccessor(arg[0])
				}
			}
		case fRet:
			r = listArg(arg)
		default:
			cp := make([]interface{}, len(arg)) // what the menu's "all"/"af" return: a non-nil copy
			copy(cp, arg)
			r = cp
		}
		list = []interface{}{r}
		single = true
	}
	e.log = perFuncLog(e.calls)
	if len(list) > 0 {
		e.result = canon(list)
	} else {
		e.errType = "jsonpath.ErrorFunctionFailed"
	}
	return e
}

func errTypeOf(out string) string {
	if strings.HasPrefix(out, "ERR<") {
		if i := strings.Index(out, "|"); i > 0 {
			return out[4:i]
		}
	}
	return ""
}

func distinctFuncs(funcs uint32, n int) []int {
	var avail []int
	for f := 0; f < nFuncs; f++ {
		if funcs&(1<<uint(f)) != 0 {
			avail = append(avail, f)
		}
	}
	var out []int
	for len(out) < n && len(avail) > 0 {
		k := rn(len(avail))
		out = append(out, avail[k])
		avail = append(avail[:k], avail[k+1:]...)
	}
	return out
}

func runC14() *RunResult {
	if rn(4) == 3 {
		return runC14Operand()
	}
	w := &World{prop: "C14"}
	dg := docGen{useNumber: chance(25)}
	trap := chance(20)
	cfg := CfgSpec{Present: true, Funcs: 1<<nFuncs - 1, Accessor: chance(40), Variant: rn(3)}
	if chance(30) {
		cfg.Funcs = uint32(rn(1<<nFuncs)) | 1<<uint(rn(nFuncs))
	}
	// path: prefix of every step kind (no functions inside), then 1-3 distinct functions
	doc := newDoc(dg.doc(trap))
	pg := genPathFor(doc.Val, 0, trap, 4, 0)
	// a third of the cases: the prefix comes from the families of the reference model, and
	// then "the values selected before the first function" are what the MODEL selects - a
	// selection defect of the library (a dropped element, a null member taken for missing) is
	// then visible as a function that was not called for a selected value
	if chance(33) {
		pg = genModelPathFor(doc.Val, trap)
		pg.SingleValued = false
		pg.Prefix = pg.Text
		single := true
		for _, st := range pg.Model {
			if st.Kind != mName {
				single = false
			}
		}
		pg.SingleValued = single
	}
	fl := distinctFuncs(cfg.Funcs, 1+rn(3))
	text := pg.Prefix
	for _, f := range fl {
		text += "." + funcNames[f] + "()"
	}
	p := &PathSpec{Text: text, Prefix: pg.Prefix, Funcs: fl, SingleValued: pg.SingleValued, Model: pg.Model}
	w.docs = []*Doc{doc}
	res0 := &RunResult{Probes: map[string]int{}, Faults: map[string]int{}}

	// pre-phase (solo): V = what the prefix selects in plain mode; fault-free call count
	simrt.SetMode(simrt.ModeSolo)
	ref := &Recorder{}
	prefixFn := soloParse(&PathSpec{Text: p.Prefix}, CfgSpec{})
	var V []interface{}
	prefixOut := ""
	if prefixFn.Fn != nil {
		simrt.OpStart()
		V, prefixOut = safeCall(prefixFn.Fn, deepCopy(doc.Val))
	} else {
		prefixOut = prefixFn.Out
	}
	shared := soloParse(p, cfg)
	simrt.SetMode(simrt.ModeOff)
	if p.Model != nil && prefixFn.Fn != nil {
		mv := modelEval(p.Model, doc.Val)
		if len(mv) == 0 {
			V = nil
		} else {
			V = mv
		}
	}
	if shared.Fn == nil || prefixFn.Fn == nil {
		// the path does not parse (e.g. a name step that needs no '$'): nothing to judge
		res0.Sample = []string{"unparsable: " + p.Text + " => " + shared.Out}
		return res0
	}
	w.shared = []*ParsedFn{shared}
	_ = ref

	// in some accessor-mode cases id() and first() hand back Accessors of their own making (a
	// function that uses accessor-mode Retrieve itself): values like any other, which the
	// library wraps like any other
	retAcc := cfg.Accessor && chance(25)
	modelRetAcc = retAcc
	defer func() { modelRetAcc = false }()
	// fault plans
	free := modelFunctions(V, p.SingleValued, fl, [nFuncs]uint64{}, cfg.Variant)
	n := len(free.calls)
	var plans [][nFuncs]uint64
	exhaustive := false
	if V != nil && n <= 8 {
		exhaustive = true
		for m := 0; m < 1<<uint(n); m++ {
			var f [nFuncs]uint64
			var cnt [nFuncs]int
			for i, c := range free.calls {
				if m&(1<<uint(i)) != 0 {
					f[c.Func] |= 1 << uint(cnt[c.Func])
				}
				cnt[c.Func]++
			}
			plans = append(plans, f)
		}
	} else {
		plans = append(plans, [nFuncs]uint64{})
		var all [nFuncs]uint64
		for _, f := range fl {
			all[f] = ^uint64(0)
		}
		plans = append(plans, all)
		for i := 0; i < 6; i++ {
			var f [nFuncs]uint64
			for _, k := range fl {
				f[k] = uint64(rn(1 << 16))
			}
			plans = append(plans, f)
		}
		for _, k := range fl {
			var f [nFuncs]uint64
			f[k] = 1 << uint(rn(8))
			plans = append(plans, f)
		}
	}
	nt := 1
	if chance(40) {
		nt = 2 + rn(widen(3))
	}
	for ti := 0; ti < nt; ti++ {
		w.tasks = append(w.tasks, &Task{id: ti})
	}
	// fault kind "user function panics, caller recovers": the evaluation hit by the panic is not
	// judged (the property says nothing about it), every evaluation after it is
	if n > 0 && chance(25) {
		for ti := 0; ti < nt; ti++ {
			var pn [nFuncs]uint64
			c := free.calls[rn(n)]
			pn[c.Func] = 1 << uint(rn(4))
			// if the library chose to absorb the panic, the only defensible reading is "that
			// call failed": the model with exactly that call failing
			var asFault [nFuncs]uint64
			asFault[c.Func] = pn[c.Func]
			expFail := modelFunctions(V, p.SingleValued, fl, asFault, cfg.Variant)
			o := &Op{Kind: opCustom, Path: p, Cfg: cfg, Panics: pn}
			o.Do = func(t *Task, o *Op) {
				t.rec.RetAcc = retAcc
				res, out := safeCall(shared.Fn, deepCopy(doc.Val))
				t.rec.RetAcc = false
				o.Got, o.GotLog = out, perFuncLog(t.rec.Calls)
				if simrt.Aborted() != 0 || t.rec.Panicked == 0 {
					return
				}
				// the user function panicked.  Either the panic reaches the caller, or the
				// call counts as failed; a value that no call returned must never show up
				if strings.HasPrefix(out, "PANIC<main.plannedPanic") {
					return
				}
				t.judged++
				ok := false
				if expFail.result != "" {
					ok = res != nil && canon(plainView(res)) == expFail.result
				} else {
					ok = res == nil && strings.HasPrefix(out, "ERR<jsonpath.Error")
				}
				if !ok {
					t.fail("C14:panicking-function-treated-as-a-successful-call", p.Text, fmt.Sprintf("%v\n  the user function panicked in one call; got %s\n  acceptable: the panic reaches the caller, or the call counts as failed: %s%s", o, clip(out, 300), expFail.result, expFail.errType))
				}
			}
			w.tasks[ti].ops = append(w.tasks[ti].ops, o)
		}
	}
	for i, f := range plans {
		f := f
		exp := modelFunctions(V, p.SingleValued, fl, f, cfg.Variant)
		o := &Op{Kind: opCustom, Path: p, Cfg: cfg, Faults: f, LibErr: i%3 == 1}
		o.Do = func(t *Task, o *Op) {
			// every evaluation gets its own copy of the document: if the library damages the
			// document (C04's subject) later evaluations must not inherit the damage
			t.rec.RetAcc = retAcc
			res, out := safeCall(shared.Fn, deepCopy(doc.Val))
			t.rec.RetAcc = false
			o.Got, o.GotLog = out, perFuncLog(t.rec.Calls)
			if t.rec.Bad != "" {
				o.GotLog += "BAD:" + t.rec.Bad
			}
			if simrt.Aborted() != 0 {
				return
			}
			t.judged++
			key := p.Text
			if V == nil {
				// the prefix selects nothing: no function may be called, same error kind
				if len(t.rec.Calls) != 0 {
					t.fail("C14:function-called-although-nothing-selected", key, fmt.Sprintf("%v\n  prefix %q => %s\n  calls %s", o, p.Prefix, prefixOut, o.GotLog))
				} else if res != nil {
					t.fail("C14:result-although-nothing-selected", key, fmt.Sprintf("%v\n  prefix %q => %s", o, p.Prefix, prefixOut))
				}
				return
			}
			if o.GotLog != exp.log {
				t.fail("C14:call-protocol", key, fmt.Sprintf("%v\n  values before the first function (%q): %s\n  calls made     %s\n  calls expected %s", o, p.Prefix, clip(canon(V), 300), clip(o.GotLog, 500), clip(exp.log, 500)))
				return
			}
			if exp.result != "" {
				got := ""
				if res != nil {
					got = canon(plainView(res))
				}
				if got != exp.result {
					t.fail("C14:result", key, fmt.Sprintf("%v\n  got      %s\n  expected %s", o, clip(out, 300), clip(exp.result, 300)))
				}
				return
			}
			// Every value the prefix selects died in a function.  With a single-valued prefix
			// there is exactly one branch, so "no branch produced a result because functions
			// failed" holds and the error must be ErrorFunctionFailed.  With a multi-valued
			// prefix other branches may have failed earlier for their own reasons and which of
			// the branch errors is reported is C15's business: there only this is required:
			// a runtime error, and if it is ErrorFunctionFailed it names a function that failed.
			et := errTypeOf(out)
			if p.SingleValued && et != exp.errType {
				t.fail("C14:error-kind-when-functions-failed", key, fmt.Sprintf("%v\n  the only branch died in a function; got %s, expected %s", o, clip(out, 300), exp.errType))
				return
			}
			switch et {
			case "jsonpath.ErrorFunctionFailed":
				named := false
				for _, fn := range exp.failedFn {
					if strings.Contains(out, "."+fn+"()") {
						named = true
					}
				}
				if !named {
					t.fail("C14:error-names-wrong-function", key, fmt.Sprintf("%v\n  got %s, functions that failed under the plan: %v", o, clip(out, 300), exp.failedFn))
				}
			case "jsonpath.ErrorMemberNotExist", "jsonpath.ErrorTypeUnmatched":
			default:
				t.fail("C14:error-kind-when-functions-failed", key, fmt.Sprintf("%v\n  every selected value died in a function; got %s", o, clip(out, 300)))
			}
		}
		t := w.tasks[i%nt]
		t.ops = append(t.ops, o)
	}
	drawSchedule(nt, &w.cfg)
	res := w.run()
	if exhaustive {
		res.Probes["fault-subsets-enumerated-exhaustively"]++
		res.Probes["fault-plans-executed"] += len(plans)
	} else {
		res.Probes["fault-plans-sampled"] += len(plans)
	}
	if n > 0 {
		res.Cases = []uint64{fnv(p.Text + "|" + cfg.String() + "|" + doc.Snap)}
	}
	if cfg.Accessor {
		res.Probes["accessor-mode-case"]++
		if retAcc {
			res.Probes["user-function-returned-an-accessor-of-its-own"]++
		}
	}
	if p.Model != nil {
		res.Probes["prefix-values-from-the-reference-model"]++
	}
	if len(V) > 1 {
		res.Probes["multi-valued-prefix"]++
	}
	return res
}

// runC14Operand: a function inside a filter operand.  The filter is a single comparison or
// existence test, so every member must be passed to the function exactly once, in member
// order, with what the operand's path selects for that member (a $-rooted operand: exactly one
// call per evaluation of the filter).
func runC14Operand() *RunResult {
	w := &World{prop: "C14"}
	dg := docGen{useNumber: chance(25)}
	cfg := CfgSpec{Present: true, Funcs: 1<<nFuncs - 1, Accessor: chance(30), Variant: rn(3)}
	doc := newDoc(dg.doc(false))
	w.docs = []*Doc{doc}
	res0 := &RunResult{Probes: map[string]int{}, Faults: map[string]int{}}

	// single-valued, document-aware prefix ending at a container
	prefix := "$"
	cur := doc.Val
	for i := rn(3); i > 0; i-- {
		switch t := cur.(type) {
		case map[string]interface{}:
			keys := sortedKeys(t)
			if len(keys) == 0 {
				i = 0
				continue
			}
			k := keys[rn(len(keys))]
			switch t[k].(type) {
			case map[string]interface{}, []interface{}:
				prefix += nameStep(k)
				cur = t[k]
			}
		case []interface{}:
			if len(t) == 0 {
				i = 0
				continue
			}
			j := rn(len(t))
			switch t[j].(type) {
			case map[string]interface{}, []interface{}:
				prefix += "[" + itoa(j) + "]"
				cur = t[j]
			}
		}
	}
	members := membersOf(cur)
	// operand path below '@' (or '$'): names that some member has
	rooted := chance(20)
	suffix := ""
	if chance(70) {
		var keys []string
		src := members
		if rooted {
			src = []interface{}{doc.Val}
		}
		for _, m := range src {
			if mm, ok := m.(map[string]interface{}); ok {
				for _, k := range sortedKeys(mm) {
					if dotOK(k) {
						keys = append(keys, k)
					}
				}
			}
		}
		if len(keys) > 0 {
			suffix = "." + keys[rn(len(keys))]
		} else {
			suffix = ".a"
		}
	}
	f := rn(nFuncs)
	root := "@"
	if rooted {
		root = "$"
	}
	// a value-group operand (existence tests only): the function is called for EVERY value the
	// group path selects for a member, in order - not just for the one the test needs
	group := chance(25)
	rootRef := false
	if group {
		suffix += pick([]string{".*", "[*]", "..a", "..*", "[0:2]", "[0,1]", "['a','b']", "[::-1]", "[*,*]"})
		if !rooted && len(members) <= 48 && chance(50) {
			// a filter inside the operand's own path that refers to the ROOT of the document:
			// '$' below an '@' operand (and below a function's parameter) is still the root
			ref := "[0]"
			if dm, ok := doc.Val.(map[string]interface{}); ok {
				ref = ".a"
				for _, k := range sortedKeys(dm) {
					if dotOK(k) && chance(50) {
						ref = "." + k
						break
					}
				}
			}
			suffix += pick([]string{"[?(@ != $" + ref + ")]", "[?($" + ref + ")]", "[?(!$" + ref + ".zz)]", "[?(@ == $" + ref + " || @)]"})
			rootRef = true
		}
	}
	operand := root + suffix + "." + funcNames[f] + "()"
	var query string
	qk := rn(4)
	if group && !isAggregate(f) {
		qk = rn(2)
	}
	switch qk {
	case 0:
		query = operand
	case 1:
		query = "!" + operand
	default:
		op := pick([]string{"==", "!=", "<", ">=", "=="})
		lit := num()
		if op == "==" || op == "!=" {
			lit = literal()
		}
		if chance(30) && (op == "==" || op == "!=" || !rooted) {
			query = lit + sp() + mirror(op) + sp() + operand
		} else {
			query = operand + sp() + op + sp() + lit
		}
		if rooted && (op == "<" || op == ">=") {
			// a $-rooted operand is literal-like: ordering against a literal would recurse for ever (C02)
			query = operand + " == " + literal()
		}
	}
	combined := false
	if chance(35) {
		// the operand's term is one side of && or ||: whatever the other side says about a
		// member, the function is still called for every value its own path selects
		other := pick([]string{"@.zz", "!@.zz", "@.a", "!@.a", "@.a > 1", "@.b == 'x'", "@ != 1", "$.zz", "!$.zz"})
		form := rn(4)
		if form == 0 || form == 2 {
			// The function's term on the RIGHT: the library of today skips the right side as a
			// whole when the left side already decides for ALL members (none passes &&, all pass
			// ||) and evaluates it for every member otherwise.  Only the second situation is
			// used: the other term must hold for some members and not for others.
			simrt.SetMode(simrt.ModeSolo)
			pass := 0
			if lf := soloParse(&PathSpec{Text: prefix + "[?(" + other + ")]"}, CfgSpec{}); lf.Fn != nil {
				simrt.OpStart()
				r, _ := safeCall(lf.Fn, deepCopy(doc.Val))
				pass = len(r)
			}
			simrt.SetMode(simrt.ModeOff)
			if pass == 0 || pass >= len(members) {
				form = 1
			}
		}
		switch form {
		case 0:
			query = other + " && " + query
		case 1:
			query = query + " && " + other
		case 2:
			query = other + " || " + query
		default:
			query = "(" + query + " || " + other + ") && !@.zz"
		}
		combined = true
	}
	text := prefix + "[?(" + query + ")]"
	p := &PathSpec{Text: text, Prefix: prefix}

	simrt.SetMode(simrt.ModeSolo)
	shared := soloParse(p, cfg)
	// what the operand's path selects for each member, obtained from the library in plain mode
	type sel struct {
		ok bool
		v  interface{}
		vs []interface{} // group operand: every value selected for this member
	}
	var sels []sel
	opFn := soloParse(&PathSpec{Text: "$" + suffix}, CfgSpec{})
	srcs := members
	if rooted {
		srcs = []interface{}{doc.Val}
	}
	var memberSel []string
	switch t := cur.(type) {
	case map[string]interface{}:
		for _, k := range sortedKeys(t) {
			memberSel = append(memberSel, "["+quoteName(k, false)+"]")
		}
	case []interface{}:
		for j := range t {
			memberSel = append(memberSel, "["+itoa(j)+"]")
		}
	}
	for mi, m := range srcs {
		if opFn.Fn == nil {
			sels = append(sels, sel{})
			continue
		}
		var r []interface{}
		if rootRef {
			// what the operand selects for this member is what the full path down to the
			// member plus the operand's path selects in the document ('$' keeps its meaning)
			full := soloParse(&PathSpec{Text: prefix + memberSel[mi] + suffix}, CfgSpec{})
			if full.Fn == nil {
				opFn = full
				sels = append(sels, sel{})
				continue
			}
			simrt.OpStart()
			r, _ = safeCall(full.Fn, doc.Val)
		} else {
			simrt.OpStart()
			r, _ = safeCall(opFn.Fn, m)
		}
		if group {
			sels = append(sels, sel{ok: len(r) > 0, vs: r})
		} else if len(r) == 1 {
			sels = append(sels, sel{ok: true, v: r[0]})
		} else {
			sels = append(sels, sel{})
		}
	}
	simrt.SetMode(simrt.ModeOff)
	if shared.Fn == nil || opFn.Fn == nil {
		res0.Sample = []string{"unparsable: " + p.Text + " => " + shared.Out}
		return res0
	}
	isContainer := false
	switch cur.(type) {
	case map[string]interface{}, []interface{}:
		isContainer = true
	}
	if !isContainer || (!rooted && len(members) == 0) {
		// not a container (the filter step fails before looking at its operand), or no member
		// to evaluate a '@' operand for; a '$' operand is evaluated once per container, even an
		// empty one
		sels = nil
	}
	w.shared = []*ParsedFn{shared}
	// expected calls (fault-free): one per member for which the operand path selects a value
	var args []interface{}
	for _, s := range sels {
		if !s.ok {
			continue
		}
		if group {
			if isAggregate(f) {
				args = append(args, listArg(s.vs)) // the list of all values of the group
			} else {
				args = append(args, s.vs...) // once per selected value, in order
			}
			continue
		}
		a := s.v
		if isAggregate(f) {
			if arr, ok := s.v.([]interface{}); ok {
				a = listArg(arr)
			} else {
				a = []interface{}{s.v}
			}
		}
		args = append(args, a)
	}
	n := len(args)
	var plans []uint64
	if n <= 8 {
		for m := 0; m < 1<<uint(n); m++ {
			plans = append(plans, uint64(m))
		}
	} else {
		plans = []uint64{0, ^uint64(0), uint64(rn(1 << 16)), 1 << uint(rn(8))}
	}
	nt := 1
	if chance(40) {
		nt = 2 + rn(widen(3))
	}
	for ti := 0; ti < nt; ti++ {
		w.tasks = append(w.tasks, &Task{id: ti})
	}
	for i, mask := range plans {
		mask := mask
		var faults [nFuncs]uint64
		faults[f] = mask
		var calls []CallRec
		for k, a := range args {
			calls = append(calls, CallRec{Func: f, Variant: cfg.Variant, Arg: canonArg(a), Fail: k < 64 && mask&(1<<uint(k)) != 0})
		}
		expLog := perFuncLog(calls)
		o := &Op{Kind: opCustom, Path: p, Cfg: cfg, Faults: faults}
		o.Do = func(t *Task, o *Op) {
			_, out := safeCall(shared.Fn, deepCopy(doc.Val))
			o.Got, o.GotLog = out, perFuncLog(t.rec.Calls)
			if simrt.Aborted() != 0 {
				return
			}
			t.judged++
			if o.GotLog != expLog {
				t.fail("C14:call-protocol-in-filter-operand", p.Text, fmt.Sprintf("%v\n  document %s\n  calls made     %s\n  calls expected %s (one per member for which %q selects a value, in member order)", o, clip(doc.Snap, 300), clip(o.GotLog, 400), clip(expLog, 400), root+suffix))
				return
			}
			if mask == 0 && strings.Contains(out, "ErrorFunctionFailed") {
				t.fail("C14:function-failed-without-failing-function", p.Text, fmt.Sprintf("%v", o))
			}
		}
		w.tasks[i%nt].ops = append(w.tasks[i%nt].ops, o)
	}
	drawSchedule(nt, &w.cfg)
	res := w.run()
	res.Probes["function-inside-filter-operand-case"]++
	if combined && n > 0 {
		res.Probes["operand-term-combined-with-another-term"]++
	}
	if rootRef && n > 0 {
		res.Probes["operand-path-with-a-filter-that-refers-to-the-root"]++
	}
	if n > 0 {
		res.Cases = []uint64{fnv(p.Text + "|" + cfg.String() + "|" + doc.Snap)}
		res.Probes["fault-plans-executed"] += len(plans)
	}
	return res
}

func mirror(op string) string {
	switch op {
	case "<":
		return ">"
	case ">":
		return "<"
	case "<=":
		return ">="
	case ">=":
		return "<="
	}
	return op
}
