package main

import (
	"verif/simrt"
)

// C05 — a parsed function is pure; returned slices belong to the caller (DESIGN.md §4).
//
// Each task parses one path and calls it on a history of documents of one family, mixed with
// unrelated Parse/Retrieve calls that recycle pooled buffers, scribbling over and appending
// to earlier results.  Every call is compared with a freshly parsed reference evaluated on a
// copy of the document as it was just before the call.
func runC05() *RunResult {
	w := &World{prop: "C05", refInline: true, judgeOutcome: true, checkOld: true, selfReentry: true, memoEqualDocs: true}
	nt := 1
	if chance(30) {
		nt = 2 + rn(widen(3))
	}
	dg := docGen{useNumber: chance(30)}
	trap := chance(30)
	cases := []uint64{}
	for ti := 0; ti < nt; ti++ {
		t := &Task{id: ti}
		cfg := genCfg(true)
		// a family of documents that agree in shape and differ in the values filters look at
		base := dg.doc(trap)
		nd := 2 + rn(3)
		t.docs = append(t.docs, newDoc(base))
		for i := 1; i < nd; i++ {
			t.docs = append(t.docs, newDoc(dg.variant(base)))
		}
		var p *PathSpec
		if chance(8) {
			p = genFailPath()
		} else {
			p = genPathFor(t.docs[rn(nd)].Val, cfg.Funcs, trap, 4, 2)
		}
		// unrelated path/doc for pool recycling
		ucfg := genCfg(true)
		udoc := len(t.docs)
		t.docs = append(t.docs, newDoc(dg.doc(trap)))
		up := genPathFor(t.docs[udoc].Val, ucfg.Funcs, trap, 3, 1)

		t.ops = append(t.ops, &Op{Kind: opParse, Path: p, Cfg: cfg, Slot: 0})
		ncalls := 2 + rn(widen(7))
		if rn(25) == 24 {
			ncalls = 17 + rn(50) // now and then a long history (the 17th, 33rd, 65th call)
		}
		for c := 0; c < ncalls; c++ {
			switch rn(10) {
			case 0:
				t.ops = append(t.ops, &Op{Kind: opScribble, Arg: rn(8), Arg2: rn(2)})
			case 1:
				t.ops = append(t.ops, &Op{Kind: opAppend, Arg: rn(8)})
			case 4:
				// between two calls the caller edits one of the documents in place
				t.ops = append(t.ops, &Op{Kind: opEditDoc, Doc: rn(nd), Arg: rn(1 << 16)})
			case 2:
				t.ops = append(t.ops, &Op{Kind: opRetrieve, Path: up, Cfg: ucfg, Doc: udoc, Faults: drawFaults(up.UsesFuncs), Panics: drawPanics(up.UsesFuncs)})
			case 3:
				t.ops = append(t.ops, &Op{Kind: opParse, Path: up, Cfg: ucfg, Slot: 1})
				t.ops = append(t.ops, &Op{Kind: opCall, Slot: 1, Doc: udoc, Path: up, Cfg: ucfg})
			}
			t.ops = append(t.ops, &Op{Kind: opCall, Slot: 0, Doc: rn(nd), Path: p, Cfg: cfg, Faults: drawFaults(p.UsesFuncs), Panics: drawPanics(p.UsesFuncs)})
		}
		w.tasks = append(w.tasks, t)
		cases = append(cases, fnv(p.Text+"|"+cfg.String()+"|"+t.docs[0].Snap))
	}
	drawSchedule(nt, &w.cfg)

	// pre-phase: one freshly parsed reference per evaluating operation (own tree each)
	simrt.SetMode(simrt.ModeSolo)
	for _, t := range w.tasks {
		for _, o := range t.ops {
			switch o.Kind {
			case opCall:
				o.RefFn = soloParse(o.Path, o.Cfg)
				if o.Path.UsesFuncs&(1<<fYF|1<<fYA) != 0 && o.RefFn.Fn != nil {
					o.RefFn.SelfFn = soloParse(o.Path, o.Cfg).Fn
				}
			case opRetrieve:
				o.RefFn = soloParse(o.Path, o.Cfg)
			}
		}
	}
	simrt.SetMode(simrt.ModeOff)

	res := w.run()
	// deadlock / step-budget aborts are C06's verdicts, not C05's: an aborted run is simply not judged
	res.Cases = cases
	return res
}
