package main

import (
	"encoding/json"
	"fmt"
	"os"
	"strings"

	"verif/simrt"

	"github.com/AsaiYusuke/jsonpath"
)

// C19 — Parse depends only on the path and the Config given to that call (DESIGN.md §4).
//
// The calls of all histories are drawn from a per-invocation corpus of (path, config)
// items.  The driver executes every item as the FIRST call of a fresh process linked with
// the pristine tree (R-pristine) and hands the outcomes to the workers; every call made
// anywhere in a history must have exactly that outcome.

// CorpusItem is one (path, config) call.
type CorpusItem struct {
	Path    string  `json:"path"`
	Cfg     CfgSpec `json:"cfg"`
	Fail    string  `json:"fail,omitempty"`
	Twin    int     `json:"twin,omitempty"`   // index of the item "same path, Config modified after Parse" (0: none)
	Twin2   int     `json:"twin2,omitempty"`  // index of the item "same path, a struct copy of the Config with one more function" (0: none)
	Extra   int     `json:"extra,omitempty"`  // the function a Twin2 config has in addition
	PairA   int     `json:"pair_a,omitempty"` // index of the item "same path + Extra function, Config = original of a copy pair"
	PairB   int     `json:"pair_b,omitempty"` // … "Config = the struct copy that registered Extra"
	Outcome string  `json:"outcome,omitempty"`
}

type itemOutcome struct {
	Parse  string   `json:"parse"`
	Probes []string `json:"probes"`
}

func (o itemOutcome) String() string { return o.Parse + " || " + strings.Join(o.Probes, " || ") }

func corpusSize() int {
	if tier == "thorough" {
		return 4000
	}
	return 400
}

func buildCorpus(seed uint64) []CorpusItem {
	simrt.Seed(splitmix(seed ^ 0xC19C19))
	n := corpusSize()
	pd := probeDocs()
	items := make([]CorpusItem, 0, n)
	// fixed items: every alternative of the grammar's root (paths without '$' that start with
	// a filter, a bracket, a name), and the same raw text used under different escaping rules
	// (a filter string literal vs. a quoted member name) - whatever residue an earlier call
	// leaves, one of these is likely to pick it up
	full := CfgSpec{Present: true, Funcs: 1<<nFuncs - 1}
	for _, fp := range []string{
		`[?(@.a == 1)]`, `[?(@.b)].a`, `[?(@.a > 1)].b`, `a`, `a.b`, `list[0].a`, `['a']`, `["c"][0]`, `[0]`, `[*]`, `*`, `[0,1]`,
		// operands that may select several values are refused in comparisons, whatever step
		// kind they end in; and the verdicts "every member matches" / "none does" that such
		// operands must never reach
		`$.list[?(@.a < $.c[::-1])]`, `$.list[?($.c[1:] >= @.a)]`, `$.list[?(@.a == $.c[*])]`, `$.list[?($.c[::-1] =~ /1/)]`, `$.list[?(@.a > $.c[0,1])]`, `$.list[?(@.a <= $..a)]`, `$.list[?(@.a != $.x.*)]`,
		`$.list[?(!@.zz)].a`, `$.list[?($.a)].b`, `$.list[?(!$.zz)]`, `$.list[?($.zz)]`, `$[?(!@.zz)]`,
		`$.m[?(@.a == 1)]`, `$.m[?(@.a == '1')]`, `$.m[?(@.a == true)]`, `$.m[?(@.a == 'true')]`, `$.m[?(@.a == null)]`, `$.m[?(@.a == '<nil>')]`, `$.m[?(@.a >= 1)]`, `$.m[?(@.a == "1")]`,
		`$['k\tv']`, `$[?(@.b == 'k\tv')]`, `$["k\tv"]`, `$[?(@.b == "k\tv")]`, `$['\u0061']`, `$[?(@.b == '\u0061')]`, `$.list[?(@.b == 'x')]`, `$['x']`,
	} {
		items = append(items, CorpusItem{Path: fp}, CorpusItem{Path: fp, Cfg: full})
	}
	for len(items) < n {
		cfg := genCfg(true)
		var p *PathSpec
		if len(items) > 4 && chance(25) {
			// the same path text as an earlier item with another Config: other function subset,
			// other behaviour under the same names, other accessor mode, or no Config at all
			prev := items[rn(len(items))]
			items = append(items, CorpusItem{Path: prev.Path, Cfg: cfg, Fail: prev.Fail})
			continue
		}
		if rn(25) == 24 {
			p = genLongPath()
			items = append(items, CorpusItem{Path: p.Text, Cfg: cfg})
			continue
		}
		if rn(12) == 11 {
			// a syntax error at the end (or in the middle) of an arbitrary - also long - valid path
			var base string
			if chance(40) {
				base = genLongPath().Text
				if len(base) > 200 {
					base = base[:60+rn(140)]
				}
			} else {
				base = genPathFor(pd[rn(len(pd))], cfg.Funcs, false, 6, 1).Text
			}
			bad := base + pick([]string{" ]", "[", "..", ".", "[?(", " =", "[0", "'", "[?(@.a = 1)]", "[1:2:3:4]", "[?(@.a == )]", ".a b", "[?(@.a > 'x' y)]"})
			items = append(items, CorpusItem{Path: bad, Cfg: cfg, Fail: "syntax-error-variant"})
			continue
		}
		switch rn(10) {
		case 0, 1, 2:
			p = genFailPath()
		case 3:
			p = genInternalPanicPath(cfg.Funcs)
		case 4:
			// functions the config may not have: ErrorFunctionNotFound for some configs
			p = genPath(1<<nFuncs-1, false, 3, 2)
		default:
			p = genPathFor(pd[rn(len(pd))], cfg.Funcs, chance(20), 4, 2)
		}
		items = append(items, CorpusItem{Path: p.Text, Cfg: cfg, Fail: p.Fail})
	}
	// twins: the same path parsed with the Config as it is after the caller replaced every
	// function in it (the fresh-process expectation for "Parse again with the modified Config")
	for i := 0; i < n; i++ {
		if items[i].Cfg.Present && i%4 == 0 {
			items[i].Twin = len(items)
			items = append(items, CorpusItem{Path: items[i].Path, Cfg: CfgSpec{Present: true, Replaced: true}, Fail: items[i].Fail, Twin: -1})
		}
	}
	// twin2: a struct copy of the Config that then registers its first function of the other
	// kind (the copy gets a map of its own for that kind, so the original must stay as it was)
	const filterMask = 1<<fID | 1<<fTag | 1<<fFF | 1<<fYF
	for i := 0; i < n; i++ {
		c := items[i].Cfg
		if !c.Present || c.Replaced || c.Funcs == 0 || i%3 != 1 {
			continue
		}
		extra := -1
		if c.Funcs&^filterMask == 0 {
			extra = fCnt // filter functions only: the copy adds an aggregate
		} else if c.Funcs&filterMask == 0 {
			extra = fID // aggregates only: the copy adds a filter function
		}
		if extra < 0 {
			continue
		}
		c2 := c
		c2.Funcs |= 1 << uint(extra)
		items[i].Twin2, items[i].Extra = len(items), extra
		// a path that uses the added function, so that the difference matters
		path := items[i].Path
		if items[i].Fail == "" {
			path += "." + funcNames[extra] + "()"
		}
		items[i].Path = path
		items = append(items, CorpusItem{Path: path, Cfg: c2, Fail: items[i].Fail, Twin: -1})
	}
	// pairs: A := config; B := A (struct copy); B registers one more function (of any kind).
	// What A and B then hold is whatever Go's copy semantics of the Config type give - the
	// fresh-process reference builds the pair the same way and makes ONE Parse call; a history
	// makes a Parse call with the other member of the pair first.
	for i := 0; i < n; i++ {
		c := items[i].Cfg
		if !c.Present || c.Replaced || c.Funcs == 0 || c.Funcs == 1<<nFuncs-1 || i%4 != 2 || items[i].Twin2 > 0 {
			continue
		}
		extra := -1
		for f := 0; f < nFuncs; f++ {
			if c.Funcs&(1<<uint(f)) == 0 {
				extra = f
				break
			}
		}
		path := items[i].Path
		if items[i].Fail == "" {
			path += "." + funcNames[extra] + "()"
		}
		ca, cb := c, c
		ca.Script, ca.Extra = 1, extra
		cb.Script, cb.Extra = 2, extra
		items[i].PairA = len(items)
		items = append(items, CorpusItem{Path: path, Cfg: ca, Fail: items[i].Fail, Twin: -1})
		items[i].PairB = len(items)
		items = append(items, CorpusItem{Path: path, Cfg: cb, Fail: items[i].Fail, Twin: -1})
	}
	return items
}

func probeDocs() []interface{} {
	return []interface{}{
		map[string]interface{}{"a": 1.0, "b": "x", "c": []interface{}{1.0, 2.0, map[string]interface{}{"a": 2.0}},
			"list": []interface{}{map[string]interface{}{"a": 1.0, "b": 2.0}, map[string]interface{}{"a": 2.0, "b": "x"}, map[string]interface{}{"b": nil}},
			"x":    map[string]interface{}{"a": map[string]interface{}{"b": []interface{}{0.0, 1.0}}}},
		[]interface{}{map[string]interface{}{"a": 1.0, "b": 1.0}, map[string]interface{}{"a": "a", "c": []interface{}{}}, []interface{}{1.0, 2.0, 3.0}, "s", nil},
		map[string]interface{}{"a": []interface{}{[]interface{}{1.0, 2.0}, []interface{}{3.0}}, "b": map[string]interface{}{"a": true}},
		map[string]interface{}{"m": []interface{}{map[string]interface{}{"a": 1.0}, map[string]interface{}{"a": "1"}, map[string]interface{}{"a": true}, map[string]interface{}{"a": "true"}, map[string]interface{}{"a": nil}, map[string]interface{}{"a": "<nil>"}, map[string]interface{}{"a": 2.0}}},
		map[string]interface{}{"k\tv": "tab-member", "ktv": "t-member", "a": map[string]interface{}{"b": "ktv"}, "x": map[string]interface{}{"b": "k\tv"}, "y": map[string]interface{}{"b": "a"}},
	}
}

type rawProbeDoc struct {
	buf *[64]byte
	txt string
}

var msgBufs [simrt.MaxTasks + 1][64]byte

var rawProbes = []string{
	`{"a":1,"b":"x","list":[{"a":1,"b":2}],"c":[1,2]}`,
	`{"a":2,"b":"y","list":[{"a":2,"b":1}],"c":[2,1]}`,
	`[{"a":1,"b":1},{"a":"a","c":[]},[1,23],"s",null]`,
	`[{"a":2,"b":2},{"a":"b","c":[]},[3,21],"t",null]`,
}

// probe exercises a parsed function on the fixed probe documents with recording callbacks.
func probe(fn fnType, rec *Recorder, path string) []string {
	return probeWith(func(d interface{}) ([]interface{}, string) { return safeCall(fn, d) }, fn, rec, path)
}

// probeWith: call evaluates the path on one document (the parsed function, or Retrieve);
// self, if not nil, is what re-entering user functions call besides the nested Retrieve.
func probeWith(call func(interface{}) ([]interface{}, string), self fnType, rec *Recorder, path string) []string {
	var out []string
	s := recSlot()
	old := curRec[s]
	curRec[s] = rec
	docs := probeDocs()
	// one of a few messages of equal length, still undecoded, delivered in the one buffer
	// this caller reads all its messages into (which message: fixed by the path)
	buf := &msgBufs[s]
	docs = append(docs, rawProbeDoc{buf, rawProbes[int(fnv(path)%uint64(len(rawProbes)))]})
	for _, d := range docs {
		if r, ok := d.(rawProbeDoc); ok {
			n := copy(r.buf[:], r.txt)
			if len(r.txt)%2 == 0 {
				d = json.RawMessage(r.buf[:n])
			} else {
				d = r.buf[:n]
			}
		}
		rec.reset([nFuncs]uint64{})
		rec.Self = self
		simrt.OpStart()
		_, o := call(d)
		out = append(out, o+" log="+rec.log())
		if simrt.Aborted() != 0 {
			break
		}
	}
	curRec[s] = old
	return out
}

func execItem(it CorpusItem, cfgs []jsonpath.Config, inject int, rec *Recorder) (fnType, itemOutcome, bool) {
	simrt.OpStart()
	fn, out := safeParse(it.Path, cfgs, inject)
	fired := simrt.InjectionFired()
	o := itemOutcome{Parse: out}
	if fn != nil && simrt.Aborted() == 0 && !fired {
		o.Probes = probe(fn, rec, it.Path)
	}
	return fn, o, fired
}

// retrieveItem is execItem through Retrieve: every probe document is evaluated by its own
// Retrieve call (which parses each time).  For an item that parses, the outcome must read
// exactly like Parse + calls; the user functions cannot re-enter "the calling function"
// here, so this form is used only for items whose functions do not do that.
func retrieveItem(it CorpusItem, cfgs []jsonpath.Config, rec *Recorder) itemOutcome {
	pr := probeWith(func(d interface{}) ([]interface{}, string) { return safeRetrieve(it.Path, d, cfgs) }, nil, rec, it.Path)
	return itemOutcome{Parse: "FN", Probes: pr}
}

// retrievable: the item parses (fresh-process outcome) and none of its functions re-enters.
func retrievable(i int) bool {
	if c19Expect == nil || !strings.HasPrefix(c19Expect[i], "FN || ") {
		return false
	}
	return !strings.Contains(c19Corpus[i].Path, ".yf()") && !strings.Contains(c19Corpus[i].Path, ".ya()")
}

// oneshot executes corpus item i as the first library call of this process.
func oneshot(seed uint64, i int, enc *json.Encoder) {
	items := buildCorpus(seed)
	if i < 0 || i >= len(items) {
		fmt.Fprintln(os.Stderr, "worker: item out of range")
		os.Exit(2)
	}
	simrt.SetMode(simrt.ModeOff)
	_, o, _ := execItem(items[i], cfgArgs(items[i].Cfg), 0, &Recorder{})
	enc.Encode(map[string]interface{}{"t": "oneshot", "i": i, "outcome": o.String(), "path": items[i].Path, "cfg": items[i].Cfg.String()})
}

func emitCorpus(seed uint64, enc *json.Encoder) {
	for i, it := range buildCorpus(seed) {
		enc.Encode(map[string]interface{}{"t": "item", "i": i, "path": it.Path, "cfg": it.Cfg.String(), "fail": it.Fail})
	}
}

var (
	c19Corpus []CorpusItem
	c19Expect []string
)

func loadC19(seed uint64, expectFile string) {
	c19Corpus = buildCorpus(seed)
	if expectFile == "" {
		return
	}
	b, err := os.ReadFile(expectFile)
	if err != nil {
		fmt.Fprintln(os.Stderr, "worker:", err)
		os.Exit(2)
	}
	if err := json.Unmarshal(b, &c19Expect); err != nil || len(c19Expect) != len(c19Corpus) {
		fmt.Fprintln(os.Stderr, "worker: bad expectation file")
		os.Exit(2)
	}
}

// keptConfig is a long-lived Config value that the caller keeps modifying.
// (the Config lives in a one-element slice that is spread into the variadic parameter, as a
// caller holding `configs []jsonpath.Config` would do: `Parse(p, configs...)`)
type keptConfig struct {
	slice []jsonpath.Config
	spec  CfgSpec
}

func runC19() *RunResult {
	w := &World{prop: "C19"}
	if c19Corpus == nil {
		panic("C19 corpus not loaded")
	}
	nt := 1
	if chance(35) {
		nt = 2 + rn(widen(3))
	}
	n := corpusSize() // histories draw base items; twins are reached through "modify, parse again"
	cases := []uint64{}
	for ti := 0; ti < nt; ti++ {
		t := &Task{id: ti}
		var kept *keptConfig
		var keptFns []struct {
			fn   fnType
			item int
		}
		nh := 2 + rn(9)
		prevItem := -1
		for h := 0; h < nh; h++ {
			item := rn(n)
			if prevItem >= 0 && chance(15) {
				item = prevItem // the very same call again
			}
			prevItem = item
			it := c19Corpus[item]
			kind := rn(10)
			inject := 0
			if kind == 0 {
				inject = 1 + rn(150)
			}
			useKept := kind == 1 || kind == 2
			o := &Op{Kind: opCustom, Path: &PathSpec{Text: it.Path}, Cfg: it.Cfg, Inject: inject}
			cases = append(cases, fnv(it.Path+"|"+it.Cfg.String()))
			o.Do = func(t *Task, o *Op) {
				cfgs := cfgArgs(it.Cfg)
				if useKept && it.Cfg.Present {
					// the same Config value is reused for many calls and modified in between
					if kept == nil || kept.spec != it.Cfg {
						kept = &keptConfig{slice: []jsonpath.Config{buildConfig(it.Cfg)}, spec: it.Cfg}
					}
					cfgs = kept.slice
					t.probe("config-value-reused")
				}
				var fn fnType
				var got itemOutcome
				fired := false
				viaRetrieve := (kind == 3 || kind == 2) && retrievable(item)
				if viaRetrieve {
					got = retrieveItem(it, cfgs, &t.rec)
					t.probe("item-evaluated-through-Retrieve")
				} else {
					fn, got, fired = execItem(it, cfgs, inject, &t.rec)
				}
				o.Got = got.String()
				if simrt.Aborted() != 0 {
					return
				}
				if inject > 0 && fired {
					t.fault("injected-panic-in-parse")
					if inject&1 != 0 {
						t.fault("injected-panic-with-non-error-value")
					}
					return // the call hit by the fault is not judged; everything after it is
				}
				if inject > 0 {
					t.probe("injection-point-beyond-parse(call-judged)")
				}
				if useKept && (fn != nil || viaRetrieve) && kept != nil && it.Cfg.Present {
					keptFns = append(keptFns, struct {
						fn   fnType
						item int
					}{fn, item})
				}
				if it.Fail != "" {
					t.fault("parse-failed:" + it.Fail)
				}
				if c19Expect != nil {
					t.judged++
					if o.Got != c19Expect[item] {
						t.fail("C19:outcome-differs-from-first-call-in-fresh-process", it.Path,
							fmt.Sprintf("Parse(%q, %s) at position %d of task %d's history\n  got               %s\n  fresh process got %s", it.Path, it.Cfg, h, t.id, clip(o.Got, 600), clip(c19Expect[item], 600)))
					}
				}
			}
			t.ops = append(t.ops, o)
			if it.Twin2 > 0 && chance(60) {
				// A := the item's Config; B := A (struct copy); B registers one more function.
				// Parse with both, in a drawn order: each must behave as in a fresh process.
				order := rn(4)
				cp := &Op{Kind: opCustom, Path: &PathSpec{Text: it.Path + "  (Config and its struct copy)"}, Cfg: it.Cfg}
				cp.Do = func(t *Task, o *Op) {
					if c19Expect == nil {
						return
					}
					a := buildConfig(it.Cfg)
					b := a
					if isAggregate(it.Extra) {
						b.SetAggregateFunction(funcNames[it.Extra], mkAggregate(it.Extra, it.Cfg.Variant))
					} else {
						b.SetFilterFunction(funcNames[it.Extra], mkFilter(it.Extra, it.Cfg.Variant))
					}
					t.probe("config-struct-copied-then-extended")
					seq := [][2]int{{0, 1}, {1, 0}, {0, 1}, {1, 0}}[order]
					steps := []int{seq[0], seq[1]}
					if order >= 2 {
						steps = append(steps, seq[0])
					}
					for _, which := range steps {
						idx, cfg := item, a
						if which == 1 {
							idx, cfg = it.Twin2, b
						}
						_, got, _ := execItem(c19Corpus[idx], []jsonpath.Config{cfg}, 0, &t.rec)
						if simrt.Aborted() != 0 {
							return
						}
						t.judged++
						o.Got += got.Parse + ";"
						if got.String() != c19Expect[idx] {
							t.fail("C19:outcome-differs-from-first-call-in-fresh-process", c19Corpus[idx].Path,
								fmt.Sprintf("Parse(%q, %s) where the Config is one of a pair (a Config and its struct copy that registered %q in addition)\n  got               %s\n  fresh process got %s", c19Corpus[idx].Path, c19Corpus[idx].Cfg, funcNames[it.Extra], clip(got.String(), 600), clip(c19Expect[idx], 600)))
							return
						}
					}
				}
				t.ops = append(t.ops, cp)
			}
			if it.PairA > 0 && chance(70) {
				// a Config and its struct copy that registered one more function: a Parse call with
				// one of them must not change what a Parse call with the other one does
				first := rn(2)
				pa := &Op{Kind: opCustom, Path: &PathSpec{Text: c19Corpus[it.PairA].Path + "  (Config pair: original and extended struct copy)"}, Cfg: c19Corpus[it.PairA].Cfg}
				pa.Do = func(t *Task, o *Op) {
					if c19Expect == nil {
						return
					}
					a, b := buildConfigPair(c19Corpus[it.PairA].Cfg)
					cfgs := []jsonpath.Config{a, b}
					idxs := []int{it.PairA, it.PairB}
					t.probe("config-pair-original-and-copy")
					for step := 0; step < 3; step++ {
						which := (first + step) % 2
						_, got, _ := execItem(c19Corpus[idxs[which]], []jsonpath.Config{cfgs[which]}, 0, &t.rec)
						if simrt.Aborted() != 0 {
							return
						}
						t.judged++
						o.Got += got.Parse + ";"
						if got.String() != c19Expect[idxs[which]] {
							t.fail("C19:outcome-differs-from-first-call-in-fresh-process", c19Corpus[idxs[which]].Path,
								fmt.Sprintf("Parse(%q, %s), call %d of a sequence alternating between a Config and its extended struct copy\n  got               %s\n  fresh process got %s", c19Corpus[idxs[which]].Path, c19Corpus[idxs[which]].Cfg, step+1, clip(got.String(), 600), clip(c19Expect[idxs[which]], 600)))
							return
						}
					}
				}
				t.ops = append(t.ops, pa)
			}
			if it.Cfg.Present && !it.Cfg.Replaced && chance(10) {
				// the API takes a variadic list of Configs.  A call that passes the caller's kept
				// Config together with another one (whatever the library makes of the second one:
				// that call is not judged) must not change the kept Config: parsing with it alone
				// afterwards must behave as in a fresh process.
				other := genCfg(true)
				other.Present = true
				if other.Funcs == 0 {
					other.Funcs = 1<<nFuncs - 1
				}
				other.Variant = (it.Cfg.Variant + 1) % 3
				mc := &Op{Kind: opCustom, Path: &PathSpec{Text: it.Path + "  (kept Config passed together with another Config, then alone)"}, Cfg: it.Cfg}
				mc.Do = func(t *Task, o *Op) {
					if c19Expect == nil {
						return
					}
					base := buildConfig(it.Cfg)
					simrt.OpStart()
					_, o.Got = safeParse(it.Path, []jsonpath.Config{base, buildConfig(other)}, 0)
					t.probe("call-with-two-configs")
					_, got, _ := execItem(it, []jsonpath.Config{base}, 0, &t.rec)
					if simrt.Aborted() != 0 {
						return
					}
					t.judged++
					if got.String() != c19Expect[item] {
						t.fail("C19:outcome-differs-from-first-call-in-fresh-process", it.Path,
							fmt.Sprintf("Parse(%q, %s) after the same Config value had been passed to an earlier call together with %s\n  got               %s\n  fresh process got %s", it.Path, it.Cfg, other, clip(got.String(), 600), clip(c19Expect[item], 600)))
					}
				}
				t.ops = append(t.ops, mc)
			}
			if it.Fail == "" && it.Cfg.Present && it.Cfg.Funcs != 0 && chance(12) {
				// a function returned by Parse is used and one of its user functions panics (the
				// caller recovers): not judged itself; whatever is parsed or called afterwards is
				pk := rn(1 << 12)
				pp := &Op{Kind: opCustom, Path: &PathSpec{Text: it.Path + "  (user function panics)"}, Cfg: it.Cfg}
				pp.Do = func(t *Task, o *Op) {
					simrt.OpStart()
					fn, out := safeParse(it.Path, cfgArgs(it.Cfg), 0)
					if fn == nil {
						o.Got = out
						return
					}
					var pn [nFuncs]uint64
					for f := 0; f < nFuncs; f++ {
						if it.Cfg.Funcs&(1<<uint(f)) != 0 && strings.Contains(it.Path, "."+funcNames[f]+"()") {
							pn[f] = 1 << uint(pk%3)
						}
					}
					t.rec.reset([nFuncs]uint64{})
					t.rec.Panics = pn
					_, o.Got = safeCall(fn, probeDocs()[pk%3])
					if t.rec.Panicked > 0 {
						t.fault("callback-panicked")
					}
				}
				t.ops = append(t.ops, pp)
			}
			if useKept && chance(60) {
				// modify the kept Config after Parse used it, then re-exercise what was parsed before
				m := &Op{Kind: opCustom, Path: &PathSpec{Text: "modify Config, re-probe earlier functions"}}
				m.Do = func(t *Task, o *Op) {
					if kept == nil {
						o.Got = "no kept config"
						return
					}
					modifyConfig(&kept.slice[0])
					kept.spec = CfgSpec{Present: true, Replaced: true}
					t.probe("config-modified-after-parse")
					o.Got = fmt.Sprintf("re-probed %d", len(keptFns))
					for _, kf := range keptFns {
						if kf.fn == nil {
							continue // that call went through Retrieve: no function was kept
						}
						pr := probe(kf.fn, &t.rec, c19Corpus[kf.item].Path)
						if simrt.Aborted() != 0 {
							return
						}
						got := itemOutcome{Parse: "FN", Probes: pr}.String()
						if c19Expect != nil {
							t.judged++
							if got != c19Expect[kf.item] {
								t.fail("C19:function-changed-when-config-was-modified", c19Corpus[kf.item].Path,
									fmt.Sprintf("function parsed from %q with %s, after its Config value was modified\n  got           %s\n  as parsed     %s", c19Corpus[kf.item].Path, c19Corpus[kf.item].Cfg, clip(got, 600), clip(c19Expect[kf.item], 600)))
								return
							}
						}
					}
					// Parse the same paths again with the modified Config value: the new functions
					// must be the ones used (fresh-process expectation: the twin item)
					for _, kf := range keptFns {
						tw := c19Corpus[kf.item].Twin
						if tw <= 0 || c19Expect == nil {
							continue
						}
						var got itemOutcome
						if retrievable(tw) && (kf.fn == nil || kf.item%2 == 0) {
							got = retrieveItem(c19Corpus[tw], kept.slice, &t.rec)
						} else {
							_, got, _ = execItem(c19Corpus[tw], kept.slice, 0, &t.rec)
						}
						if simrt.Aborted() != 0 {
							return
						}
						t.judged++
						t.probe("parsed-again-with-the-modified-config")
						if got.String() != c19Expect[tw] {
							t.fail("C19:outcome-differs-from-first-call-in-fresh-process", c19Corpus[tw].Path,
								fmt.Sprintf("Parse(%q) with a Config value whose functions were replaced after an earlier Parse of the same path\n  got               %s\n  fresh process got %s", c19Corpus[tw].Path, clip(got.String(), 600), clip(c19Expect[tw], 600)))
							return
						}
					}
					keptFns = nil
					kept = nil
				}
				t.ops = append(t.ops, m)
			}
		}
		w.tasks = append(w.tasks, t)
	}
	drawSchedule(nt, &w.cfg)
	res := w.run()
	w.progressVerdict(res)
	res.Cases = cases
	return res
}
