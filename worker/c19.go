package main

import "encoding/json"

// CorpusItem is one call to be re-executed as the first call of a fresh pristine process.
type CorpusItem struct {
	Path    string  `json:"path"`
	Cfg     CfgSpec `json:"cfg"`
	Outcome string  `json:"outcome"` // in-history outcome (Parse outcome + probe results + logs)
}

func oneshot(file string, enc *json.Encoder) {
	panic("todo")
}
