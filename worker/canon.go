package main

import (
	"encoding/json"
	"fmt"
	"reflect"
	"sort"
	"strconv"
	"strings"

	"github.com/AsaiYusuke/jsonpath"
)

// canon renders a value type-tagged and deterministically (DESIGN.md §2.5).
func canon(v interface{}) string {
	var b strings.Builder
	canonTo(&b, v, 0)
	return b.String()
}

func canonTo(b *strings.Builder, v interface{}, depth int) {
	if depth > 40 {
		b.WriteString("<deep>")
		return
	}
	switch t := v.(type) {
	case nil:
		b.WriteString("null")
	case bool:
		if t {
			b.WriteString("true")
		} else {
			b.WriteString("false")
		}
	case float64:
		b.WriteString("f:")
		b.WriteString(strconv.FormatFloat(t, 'g', -1, 64))
	case json.Number:
		b.WriteString("n:")
		b.WriteString(string(t))
	case string:
		b.WriteString(strconv.Quote(t))
	case int:
		b.WriteString("i:")
		b.WriteString(strconv.Itoa(t))
	case []interface{}:
		if t == nil {
			b.WriteString("nil[]")
			return
		}
		b.WriteByte('[')
		for i, e := range t {
			if i > 0 {
				b.WriteByte(',')
			}
			canonTo(b, e, depth+1)
		}
		b.WriteByte(']')
	case map[string]interface{}:
		if t == nil {
			b.WriteString("nil{}")
			return
		}
		keys := make([]string, 0, len(t))
		for k := range t {
			keys = append(keys, k)
		}
		sort.Strings(keys)
		b.WriteByte('{')
		for i, k := range keys {
			if i > 0 {
				b.WriteByte(',')
			}
			b.WriteString(strconv.Quote(k))
			b.WriteByte(':')
			canonTo(b, t[k], depth+1)
		}
		b.WriteByte('}')
	case jsonpath.Accessor:
		b.WriteString("ACC{get:")
		if t.Get == nil {
			b.WriteString("nilfn")
		} else {
			canonTo(b, t.Get(), depth+1)
		}
		if t.Set == nil {
			b.WriteString(",set:nil}")
		} else {
			b.WriteString(",set:fn}")
		}
	case struct{}:
		b.WriteString("EMPTY{}")
	case error:
		fmt.Fprintf(b, "E<%T:%s>", t, t.Error())
	default:
		rv := reflect.ValueOf(v)
		fmt.Fprintf(b, "<%s:%v>", rv.Type().String(), v)
	}
}

// canonArg renders the argument of a user function for the call log.  A list of more than
// 200 values (an aggregate over a big document, possibly once per member of that document:
// quadratic) is rendered by its length, its first and last 16 values and 64 values sampled
// at equal distances; everything shorter in full.  The reference executions and the call
// model of C14 use the same rendering.
func canonArg(v interface{}) string {
	l, ok := v.([]interface{})
	if !ok || len(l) <= 200 {
		return canon(v)
	}
	var b strings.Builder
	fmt.Fprintf(&b, "LIST/%d[", len(l))
	canonTo(&b, l[:16], 0)
	b.WriteString("…")
	step := len(l) / 64
	for i := 16; i < len(l)-16; i += step {
		canonTo(&b, l[i], 1)
		b.WriteByte(',')
	}
	b.WriteString("…")
	canonTo(&b, l[len(l)-16:], 0)
	b.WriteByte(']')
	return b.String()
}

// canonErr renders an error as (type, text).
func canonErr(err error) string {
	if err == nil {
		return "nil"
	}
	return fmt.Sprintf("ERR<%T|%s>", err, err.Error())
}

// deepCopy copies decoded-JSON-like values; perm (may be nil) permutes map insertion order.
func deepCopy(v interface{}) interface{} {
	switch t := v.(type) {
	case []interface{}:
		if t == nil {
			return t
		}
		out := make([]interface{}, len(t))
		for i, e := range t {
			out[i] = deepCopy(e)
		}
		return out
	case map[string]interface{}:
		if t == nil {
			return t
		}
		out := make(map[string]interface{}, len(t))
		for k, e := range t {
			out[k] = deepCopy(e)
		}
		return out
	case json.RawMessage:
		return append(json.RawMessage(nil), t...)
	case []byte:
		return append([]byte(nil), t...)
	default:
		return v
	}
}

// deepCopyRev copies with descending insertion order of keys (an "independently built equal map").
func deepCopyRev(v interface{}) interface{} {
	switch t := v.(type) {
	case []interface{}:
		if t == nil {
			return t
		}
		out := make([]interface{}, len(t))
		for i, e := range t {
			out[i] = deepCopyRev(e)
		}
		return out
	case map[string]interface{}:
		if t == nil {
			return t
		}
		keys := make([]string, 0, len(t))
		for k := range t {
			keys = append(keys, k)
		}
		sort.Sort(sort.Reverse(sort.StringSlice(keys)))
		out := make(map[string]interface{})
		for _, k := range keys {
			out[k] = deepCopyRev(t[k])
		}
		return out
	default:
		return v
	}
}

func fnv(s string) uint64 {
	h := uint64(14695981039346656037)
	for i := 0; i < len(s); i++ {
		h ^= uint64(s[i])
		h *= 1099511628211
	}
	return h
}

// shallowSig renders a result slice by the identity of its elements: scalars by value,
// containers by address.  "The slice belongs to the caller" is about the slice itself; what
// happens inside containers of the document is C04's business.
func shallowSig(res []interface{}) string { return resultSig(res, nil) }

// containerIDs collects the identities of all containers reachable from the documents.
func containerIDs(docs []*Doc) map[uintptr]bool {
	ids := map[uintptr]bool{}
	var walk func(v interface{}, d int)
	walk = func(v interface{}, d int) {
		if d > 12 {
			return
		}
		switch t := v.(type) {
		case map[string]interface{}:
			if t != nil {
				ids[reflect.ValueOf(t).Pointer()] = true
			}
			for _, e := range t {
				walk(e, d+1)
			}
		case []interface{}:
			if len(t) > 0 {
				ids[reflect.ValueOf(t).Pointer()] = true
			}
			for _, e := range t {
				walk(e, d+1)
			}
		}
	}
	for _, d := range docs {
		walk(d.Val, 0)
	}
	return ids
}

// resultSig: like shallowSig, but a container that is NOT part of the caller's documents
// (docIDs non-nil) - a value a user function produced - is rendered by content, recursively,
// down to the containers of the documents (which are rendered by identity: what happens inside
// them is the caller's or C04's business).
func resultSig(res []interface{}, docIDs map[uintptr]bool) string {
	var b strings.Builder
	for i, e := range res {
		if i > 0 {
			b.WriteByte(',')
		}
		sigValue(&b, e, docIDs, 0)
	}
	return b.String()
}

func sigValue(b *strings.Builder, v interface{}, docIDs map[uintptr]bool, depth int) {
	if depth > 20 {
		b.WriteString("<deep>")
		return
	}
	switch t := v.(type) {
	case map[string]interface{}:
		if docIDs == nil || t == nil || docIDs[reflect.ValueOf(t).Pointer()] {
			fmt.Fprintf(b, "map@%p", t)
			return
		}
		keys := make([]string, 0, len(t))
		for k := range t {
			keys = append(keys, k)
		}
		sort.Strings(keys)
		b.WriteByte('{')
		for i, k := range keys {
			if i > 0 {
				b.WriteByte(',')
			}
			b.WriteString(strconv.Quote(k) + ":")
			sigValue(b, t[k], docIDs, depth+1)
		}
		b.WriteByte('}')
	case []interface{}:
		if len(t) == 0 {
			b.WriteString("slice/0")
			return
		}
		if docIDs == nil || docIDs[reflect.ValueOf(t).Pointer()] {
			fmt.Fprintf(b, "slice@%p/%d", &t[0], len(t))
			return
		}
		b.WriteString("list(")
		for i, e := range t {
			if i > 0 {
				b.WriteByte(',')
			}
			sigValue(b, e, docIDs, depth+1)
		}
		b.WriteByte(')')
	case jsonpath.Accessor:
		if t.Set == nil {
			b.WriteString("ACC{set:nil}")
		} else {
			b.WriteString("ACC{set:fn}")
		}
	case json.RawMessage:
		// an undecoded part is the caller's memory like a container of its documents: identity
		if len(t) == 0 {
			b.WriteString("raw/0")
			return
		}
		fmt.Fprintf(b, "raw@%p/%d", &t[0], len(t))
	case []byte:
		if len(t) == 0 {
			b.WriteString("bytes/0")
			return
		}
		fmt.Fprintf(b, "bytes@%p/%d", &t[0], len(t))
	default:
		canonTo(b, v, 0)
	}
}

// deepCopyShared copies v preserving its aliasing: a container reachable through several
// slots is copied once and the copy is stored in all of them.
func deepCopyShared(v interface{}, memo map[uintptr]interface{}) interface{} {
	switch t := v.(type) {
	case []interface{}:
		if len(t) > 0 {
			id := reflect.ValueOf(t).Pointer()
			if c, ok := memo[id]; ok {
				return c
			}
			out := make([]interface{}, len(t))
			memo[id] = out
			for i, e := range t {
				out[i] = deepCopyShared(e, memo)
			}
			return out
		}
		if t == nil {
			return t
		}
		return []interface{}{}
	case map[string]interface{}:
		if t == nil {
			return t
		}
		id := reflect.ValueOf(t).Pointer()
		if c, ok := memo[id]; ok {
			return c
		}
		out := make(map[string]interface{}, len(t))
		memo[id] = out
		for k, e := range t {
			out[k] = deepCopyShared(e, memo)
		}
		return out
	default:
		return v
	}
}
