#!/bin/sh
# Build the framework from files on disk only (offline).
set -e
cd "$(dirname "$0")"
export GOFLAGS=-mod=mod GOPROXY=off GOSUMDB=off GOTOOLCHAIN=local
mkdir -p bin evidence replays
go build -o bin/vsim ./cmd/vsim
