package main

import (
	"bytes"
	"encoding/json"
	"fmt"
	"os"
	"os/exec"
	"path/filepath"
	"strconv"
	"sync"
)

// extraArgs are appended to every worker invocation of the running check.
var extraArgs []string

func oneshotOutcome(bin string, seed uint64, tier string, i int) (string, error) {
	cmd := exec.Command(bin, "-prop", "C19", "-seed", strconv.FormatUint(seed, 10), "-tier", tier, "-oneshot-item", strconv.Itoa(i))
	cmd.Env = append(os.Environ(), "GOMAXPROCS=1")
	var stderr bytes.Buffer
	cmd.Stderr = &stderr
	out, err := cmd.Output()
	if err != nil {
		// a process that dies is an outcome too (it must then die in-history as well)
		return "PROCESS-DIED: " + clip(stderr.String(), 300), nil
	}
	var r struct {
		Outcome string `json:"outcome"`
	}
	if err := json.Unmarshal(bytes.TrimSpace(out), &r); err != nil {
		return "", fmt.Errorf("one-shot %d: %v: %s", i, err, clip(string(out), 200))
	}
	return r.Outcome, nil
}

// c19Pre computes R-pristine: every corpus item executed as the first call of a fresh process
// of the pristine build, and of the instrumented build with the simulator inert.  A
// difference between the two is an instrumentation infidelity (status 2), never a verdict.
func c19Pre(c *checkCtx) {
	n := corpusCount(c)
	pri := make([]string, n)
	ins := make([]string, n)
	var wg sync.WaitGroup
	var mu sync.Mutex
	var firstErr error
	jobs := make(chan int, n*2)
	for i := 0; i < n*2; i++ {
		jobs <- i
	}
	close(jobs)
	for w := 0; w < 16; w++ {
		wg.Add(1)
		go func() {
			defer wg.Done()
			for j := range jobs {
				i, bin, dst := j/2, c.env.pristine, pri
				if j%2 == 1 {
					bin, dst = c.bin, ins
				}
				o, err := oneshotOutcome(bin, c.seed, c.tier, i)
				mu.Lock()
				if err != nil && firstErr == nil {
					firstErr = err
				}
				dst[i] = o
				mu.Unlock()
			}
		}()
	}
	wg.Wait()
	if firstErr != nil {
		c.env.cleanup()
		exit2("R-pristine: %v", firstErr)
	}
	for i := range pri {
		if pri[i] != ins[i] {
			// Either the instrumentation changed behaviour, or the library itself does not
			// answer the same call the same way twice (e.g. an error text built by ranging over a
			// map).  Ask the pristine build a few more times: if IT disagrees with itself, that is
			// a violation of C19 (the same first call of a fresh process, different outcomes).
			for k := 0; k < 6; k++ {
				again, err := oneshotOutcome(c.env.pristine, c.seed, c.tier, i)
				if err == nil && again != pri[i] {
					c.preViolation = &found{I: i, From: i, Viol: Violation{Class: "C19" + freshNondetSuffix, Key: fmt.Sprintf("corpus item %d", i),
						Detail: fmt.Sprintf("corpus item %d executed as the first call of fresh processes of the pristine build gives different outcomes:\n  %s\n  %s", i, clip(pri[i], 600), clip(again, 600))}}
					break
				}
			}
			if c.preViolation != nil {
				break
			}
			c.env.cleanup()
			exit2("instrumentation infidelity: corpus item %d behaves differently in a fresh process of the instrumented build (simulator inert) and of the pristine build:\n  pristine     %s\n  instrumented %s", i, clip(pri[i], 500), clip(ins[i], 500))
		}
	}
	f := filepath.Join(c.env.dir, "c19-expect.json")
	jb, _ := json.Marshal(pri)
	os.WriteFile(f, jb, 0o644)
	extraArgs = []string{"-expect", f}
	distinct := map[string]struct{}{}
	fails := 0
	for _, o := range pri {
		distinct[o] = struct{}{}
		if len(o) < 2 || o[:2] != "FN" {
			fails++
		}
	}
	c.extra["pristine_processes"] = n
	c.extra["fresh_instrumented_processes"] = n
	c.extra["corpus_items"] = n
	c.extra["corpus_items_whose_parse_fails"] = fails
	c.extra["corpus_distinct_outcomes"] = len(distinct)
}

// corpusCount asks the worker how many items the corpus of this seed/tier has.
func corpusCount(c *checkCtx) int {
	cmd := exec.Command(c.bin, "-prop", "C19", "-seed", strconv.FormatUint(c.seed, 10), "-tier", c.tier, "-emit-corpus")
	cmd.Env = append(os.Environ(), "GOMAXPROCS=1")
	out, err := cmd.Output()
	if err != nil {
		c.env.cleanup()
		exit2("corpus: %v", err)
	}
	n := bytes.Count(out, []byte("\n"))
	if n == 0 {
		c.env.cleanup()
		exit2("empty corpus")
	}
	return n
}

const freshNondetSuffix = ":first-call-of-a-fresh-process-is-not-deterministic"

// freshNondet re-executes corpus item i in several fresh pristine processes and reports
// whether two of them disagree.
func freshNondet(c *checkCtx, i int) (string, string, bool) {
	first, err := oneshotOutcome(c.env.pristine, c.seed, c.tier, i)
	if err != nil {
		return "", "", false
	}
	for k := 0; k < 12; k++ {
		again, err := oneshotOutcome(c.env.pristine, c.seed, c.tier, i)
		if err == nil && again != first {
			return first, again, true
		}
	}
	return first, "", false
}
