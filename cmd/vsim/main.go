// Command vsim is the driver of the deterministic simulator for AsaiYusuke/jsonpath.
//
//	vsim check <property> --tier quick|thorough      run a check (exit 0 / 1 / 2)
//	vsim check <property> --replay <file>            re-execute a replay file on the current tree
//	vsim instrument <src> <dst>                      write an instrumented copy (debugging)
//	vsim selftest determinism|sensitivity            validate the machinery itself
package main

import (
	"fmt"
	"os"

	"verif/internal/instr"
)

var commonAssume = []string{
	"sampling, not proof: the verdict covers the schedules, histories and fault plans that were run",
	"the instrumented copy (yield points; sync.Pool storage, mutex blocking and map iteration order replaced) behaves like the shipped code when the simulator makes the choices the real runtime could make",
	"scheduler hand-off through plain memory in //go:norace functions is ordered on amd64",
	"PEG rule closures of the generated parser run uninstrumented (they execute under parseMutex)",
}

func init() {
	register(&propDef{id: "C04", level: "exploration", quickRuns: 40000, thorRuns: 2000000, quickS: 35, thorS: 600, chunk: 400,
		rule:   "each run: 1-8 tasks evaluate generated paths (70% built around a filter combining ==, !=, <, &&, ||, !, regex over present, missing and $-rooted operands; the rest from the general path generator) on 1-4 shared generated documents, through shared parsed functions and through Retrieve, with and without accessor mode (Set never called), callbacks failing by plan; after every completed operation every document is deep-compared (type-tagged) with its snapshot; a case is (path, first document) and counts as non-trivial when the path contains a filter or function; distinct = distinct hash",
		assume: commonAssume})
	register(&propDef{id: "C05", level: "exploration", quickRuns: 40000, thorRuns: 2000000, quickS: 35, thorS: 600, chunk: 400,
		rule:   "each run: 1-4 tasks, each parses one generated path (every step kind, filters, functions) and calls it 2-8 times on a family of generated documents, interleaved with unrelated Parse/Retrieve, scribbling and appending to earlier results, under a drawn pool policy / map order / schedule; a case is (path, config, base document) and is non-trivial when the path parsed and at least one call was judged against a freshly parsed reference; distinct = distinct hash of that triple",
		assume: commonAssume})
}

func main() {
	if len(os.Args) >= 4 && os.Args[1] == "instrument" {
		res, err := instr.Instrument(os.Args[2], os.Args[3], "/verif/simrt", len(os.Args) > 4)
		if err != nil {
			fmt.Fprintln(os.Stderr, err)
			os.Exit(2)
		}
		fmt.Printf("files=%d sites=%d mutex=%d pool=%d maprange=%d\n", res.Files, len(res.Sites), res.MutexOps, res.PoolOps, res.MapRanges)
		return
	}
	if len(os.Args) >= 3 && os.Args[1] == "check" {
		id := os.Args[2]
		tier := os.Getenv("VERIF_TIER")
		if tier == "" {
			tier = "quick"
		}
		replay := ""
		for i := 3; i < len(os.Args); i++ {
			switch os.Args[i] {
			case "--tier":
				i++
				tier = os.Args[i]
			case "--replay":
				i++
				replay = os.Args[i]
			}
		}
		if tier != "quick" && tier != "thorough" {
			exit2("bad tier %q", tier)
		}
		os.Exit(cmdCheck(id, tier, replay))
	}
	if len(os.Args) >= 3 && os.Args[1] == "selftest" {
		os.Exit(cmdSelftest(os.Args[2:]))
	}
	fmt.Fprintln(os.Stderr, "usage: vsim check <id> [--tier quick|thorough] [--replay file] | selftest <what> | instrument <src> <dst>")
	os.Exit(2)
}
