// Command vsim is the driver of the deterministic simulator for AsaiYusuke/jsonpath.
//
//	vsim check <property> --tier quick|thorough      run a check (exit 0 / 1 / 2)
//	vsim check <property> --replay <file>            re-execute a replay file on the current tree
//	vsim instrument <src> <dst>                      write an instrumented copy (debugging)
//	vsim selftest determinism|sensitivity            validate the machinery itself
package main

import (
	"fmt"
	"os"

	"verif/internal/instr"
)

var commonAssume = []string{
	"sampling, not proof: the verdict covers the schedules, histories and fault plans that were run",
	"the instrumented copy (yield points; sync.Pool storage, mutex blocking and map iteration order replaced) behaves like the shipped code when the simulator makes the choices the real runtime could make",
	"scheduler hand-off through plain memory in //go:norace functions is ordered on amd64",
	"PEG rule closures of the generated parser run uninstrumented (they execute under parseMutex)",
}

func init() {
	register(&propDef{id: "C19", rorder: true, pristine: true, level: "exploration", quickRuns: 150000, thorRuns: 20000000, quickS: 60, thorS: 600, chunk: 300, pre: c19Pre,
		rule:   "per invocation a corpus of (path, config) calls is drawn (400 quick / 4000 thorough: valid paths of every step kind, 23 templates failing in each parser action, an internal-panic path, function-not-found combinations; configs with every function subset, accessor mode, no config) and every item is executed as the FIRST call of a fresh OS process linked with the pristine tree; each run is a history of 2-10 calls per task (1-4 tasks) drawn from the corpus, some hit by an injected panic at a drawn call site inside Parse, some made with one long-lived Config value that is then modified (every function replaced, accessor mode set); the outcome of every call (nil-ness, error type and text, results and callback logs of the returned function on three probe documents) must equal the fresh-process outcome; functions parsed before a Config modification are re-probed afterwards; a case is (path, config); distinct = distinct hash",
		assume: append([]string{"the fresh-process reference is the pristine (un-instrumented) build of the current tree; the instrumented build with the simulator inert is required to agree with it item by item, otherwise the check ends with status 2"}, commonAssume...)})
	register(&propDef{id: "C13", level: "exploration", quickRuns: 150000, thorRuns: 20000000, quickS: 60, thorS: 420, chunk: 300,
		rule:   "each run: one generated document whose leaves are pairwise distinct and whose containers are distinct non-empty allocations; 1-3 generated paths (every step kind, filters, unions with duplicates, negative indices, slices, recursive descent, functions, the root) retrieved in accessor mode, then a history of 2-12 operations: Set(unique sentinel) through a drawn accessor, direct in-place update of a slot by the caller, Get through all accessors, re-retrieval; after every step the document must equal the reference model's document (so exactly the predicted slot changed) and every accessor's Get() must equal the model's read of its location; Set must be nil exactly for non-locations (root, function outputs); locations come from a plain-mode retrieval of the same path located in the document by identity; a case is (path, document); distinct = distinct hash",
		assume: append([]string{"histories keep to what the README promises: accessors follow Go map/slice semantics, sentinels are leaves", "accessor i corresponds to plain-mode result i (when the two retrievals disagree in length the case is not judged: that is C12)"}, commonAssume...)})
	register(&propDef{id: "C07", level: "exploration", quickRuns: 150000, thorRuns: 20000000, quickS: 60, thorS: 480, chunk: 300,
		rule:   "each run: 1-2 cases (path with wildcard / filter / recursive / multi-name steps, 65% from the families whose order the property spells out; object documents with 2-12 keys drawn from a pool that sorts differently by byte, rune, UTF-16 unit, length, case and numeric value), each evaluated 3-6 times on independently built equal maps under a different non-ascending map-iteration policy per evaluation (descending, rotated, permuted), interleaved with traversals of other larger/smaller maps that recycle the pooled key buffers (LIFO/FIFO/random pool); every result sequence must equal the one obtained with ascending maps and a fresh pool, and for the spelled-out families the sequence computed by a small reference model (sort.Strings key order, index order, written order, pre-order); a case is (path, document), non-trivial when it parsed; distinct = distinct hash",
		assume: append([]string{"the reference model covers name, multi-name, wildcard, index union, always-true filter and recursive descent only; other paths are judged by equality between evaluations"}, commonAssume...)})
	register(&propDef{id: "C14", level: "fault_enumeration", quickRuns: 150000, thorRuns: 20000000, quickS: 60, thorS: 600, chunk: 300,
		rule:   "each run is one case: a generated prefix path of every step kind followed by 1-3 distinct functions of the menu (filter and aggregate in every order), one generated document, accessor mode on/off, 1-4 tasks sharing the parsed function, callbacks yielding and re-entering the library; the fault-free evaluation's n callback calls are computed by the protocol model and, when n <= 8, ALL 2^n subsets of failing calls are executed (otherwise all-fail, single-fail and random subsets); each evaluation's per-function call log, result and error kind are compared with the model applied to what the prefix alone selects; a case is non-trivial when at least one callback call is expected; distinct = distinct hash of (path, config, document)",
		assume: append([]string{"exhaustive only over fault subsets of each generated case; the cases themselves are sampled", "the values selected before the first function are obtained from the library itself (retrieval of the prefix in plain mode)"}, commonAssume...)})
	register(&propDef{id: "C06", race: true, post: c06Cold, level: "exploration", quickRuns: 60000, thorRuns: 10000000, quickS: 90, thorS: 1200, chunk: 100,
		rule:   "each run (race-detector build): 2-16 tasks mix calls of 1-4 shared parsed functions (handed over unevaluated, 25% warmed up) on 1-3 shared read-only documents with Parse/Retrieve of own paths (valid, failing in each parser action, hit by an injected panic), calls of own and of published functions, under a drawn schedule strategy (boundary / random gaps / always-switch-at-seam / at-function / PCT), pool policy and map order; verdicts: race detector report with a library write, outcome != run-alone outcome, deadlock, step budget; a case is (path, first document); distinct = distinct hash",
		assume: append([]string{"race freedom is judged by Go's race detector over the pairs of operations that ran in the same simulated run, within its shadow-memory window"}, commonAssume...)})
	register(&propDef{id: "C04", level: "exploration", quickRuns: 200000, thorRuns: 20000000, quickS: 60, thorS: 600, chunk: 400,
		rule:   "each run: 1-8 tasks evaluate generated paths (70% built around a filter combining ==, !=, <, &&, ||, !, regex over present, missing and $-rooted operands; the rest from the general path generator) on 1-4 shared generated documents, through shared parsed functions and through Retrieve, with and without accessor mode (Set never called), callbacks failing by plan; after every completed operation every document is deep-compared (type-tagged) with its snapshot; a case is (path, first document) and counts as non-trivial when the path contains a filter or function; distinct = distinct hash",
		assume: commonAssume})
	register(&propDef{id: "C05", rorder: true, level: "exploration", quickRuns: 200000, thorRuns: 20000000, quickS: 60, thorS: 600, chunk: 400,
		rule:   "each run: 1-4 tasks, each parses one generated path (every step kind, filters, functions) and calls it 2-8 times on a family of generated documents, interleaved with unrelated Parse/Retrieve, scribbling and appending to earlier results, under a drawn pool policy / map order / schedule; a case is (path, config, base document) and is non-trivial when the path parsed and at least one call was judged against a freshly parsed reference; distinct = distinct hash of that triple",
		assume: commonAssume})
}

func main() {
	if len(os.Args) >= 4 && os.Args[1] == "instrument" {
		res, err := instr.Instrument(os.Args[2], os.Args[3], verifDir+"/simrt", len(os.Args) > 4)
		if err != nil {
			fmt.Fprintln(os.Stderr, err)
			os.Exit(2)
		}
		fmt.Printf("files=%d sites=%d mutex=%d pool=%d maprange=%d\n", res.Files, len(res.Sites), res.MutexOps, res.PoolOps, res.MapRanges)
		return
	}
	if len(os.Args) >= 3 && os.Args[1] == "check" {
		id := os.Args[2]
		tier := os.Getenv("VERIF_TIER")
		if tier == "" {
			tier = "quick"
		}
		replay := ""
		for i := 3; i < len(os.Args); i++ {
			switch os.Args[i] {
			case "--tier":
				i++
				tier = os.Args[i]
			case "--replay":
				i++
				replay = os.Args[i]
			}
		}
		if tier != "quick" && tier != "thorough" {
			exit2("bad tier %q", tier)
		}
		os.Exit(cmdCheck(id, tier, replay))
	}
	if len(os.Args) >= 3 && os.Args[1] == "selftest" {
		os.Exit(cmdSelftest(os.Args[2:]))
	}
	fmt.Fprintln(os.Stderr, "usage: vsim check <id> [--tier quick|thorough] [--replay file] | selftest <what> | instrument <src> <dst>")
	os.Exit(2)
}
