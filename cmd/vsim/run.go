package main

import (
	"bufio"
	"bytes"
	"encoding/json"
	"fmt"
	"os"
	"os/exec"
	"runtime"
	"sort"
	"strconv"
	"strings"
	"sync"
	"time"
)

// Violation mirrors the worker's type.
type Violation struct {
	Class  string `json:"class"`
	Key    string `json:"key"`
	Detail string `json:"detail"`
}

type CorpusItem struct {
	Path    string          `json:"path"`
	Cfg     json.RawMessage `json:"cfg"`
	Outcome string          `json:"outcome"`
}

type runLine struct {
	T      string          `json:"t"`
	I      int             `json:"i"`
	Seed   uint64          `json:"seed"`
	Viol   *Violation      `json:"viol"`
	Tape   []uint32        `json:"tape"`
	Sample []string        `json:"sample"`
	Stats  json.RawMessage `json:"stats"`
	Digest uint64          `json:"digest"`
	Corpus []CorpusItem    `json:"corpus"`
	Sched  []string        `json:"sched"`
}

type summary struct {
	Prop      string            `json:"prop"`
	From      int               `json:"from"`
	To        int               `json:"to"`
	Next      int               `json:"next"`
	Runs      int               `json:"runs"`
	Ops       int               `json:"ops"`
	Judged    int               `json:"judged"`
	Steps     int64             `json:"steps"`
	Switches  int64             `json:"switches"`
	Aborted   int               `json:"aborted"`
	Probes    map[string]int    `json:"probes"`
	Faults    map[string]int    `json:"faults"`
	SwitchSig []uint64          `json:"switch_sigs"`
	Cases     []uint64          `json:"cases"`
	Samples   [][]string        `json:"samples"`
	Digests   map[string]uint64 `json:"digests"`
	ODigests  map[string]uint64 `json:"odigests"`
	Tainted   bool              `json:"tainted"`
	Sites     int               `json:"sites"`
	Race      bool              `json:"race"`
}

// found is a violation located at a run index.
type found struct {
	From    int // first run index of the worker process that found it
	AscFrom int // R-order: first run index of the batch's worker process that executed run I
	I       int
	Seed    uint64
	Viol    Violation
	Tape    []uint32
	Sample  []string
	Cold    bool     // found by a cold-start process (replay must pass -cold)
	GMP     string   // GOMAXPROCS of the worker process that found it
	Sched   []string // schedule / fault decisions of the (replayed) run
	Race    string   // race detector report, if that is what fired
}

type chunkResult struct {
	from, to int
	sum      *summary
	viol     *found
	corpus   []CorpusItem
	err      error // machinery problem
}

const raceExit = 66

// runChunk executes one worker process over [from,to).
func runChunk(bin, prop string, seed uint64, from, to int, order string, extra ...string) chunkResult {
	gmp := gomaxprocs
	if replayGMP != "" {
		gmp = replayGMP
	}
	return runChunkEnv(bin, prop, seed, from, to, order, gmp, extra...)
}

// replayGMP, when set, is the GOMAXPROCS value replays run with (the one of the worker
// process that found the violation).
var replayGMP string

func runChunkEnv(bin, prop string, seed uint64, from, to int, order string, gmp string, extra ...string) chunkResult {
	cr := chunkResult{from: from, to: to}
	args := []string{"-prop", prop, "-seed", strconv.FormatUint(seed, 10), "-from", strconv.Itoa(from), "-to", strconv.Itoa(to),
		"-order", order, "-tier", tierName}
	args = append(args, extra...)
	args = append(args, extraArgs...)
	cmd := exec.Command(bin, args...)
	cmd.Env = append(os.Environ(), "GOMAXPROCS="+gmp, "GORACE=halt_on_error=1 exitcode=66 atexit_sleep_ms=0 history_size=3")
	var stderr bytes.Buffer
	cmd.Stderr = &stderr
	stdout, err := cmd.StdoutPipe()
	if err != nil {
		cr.err = err
		return cr
	}
	if err := cmd.Start(); err != nil {
		cr.err = err
		return cr
	}
	// watchdog: no progress line for a long time means a hang outside the simulator's reach
	progress := make(chan struct{}, 1)
	done := make(chan struct{})
	hung := false
	go func() {
		t := time.NewTimer(watchdog)
		defer t.Stop()
		for {
			select {
			case <-done:
				return
			case <-progress:
				if !t.Stop() {
					select {
					case <-t.C:
					default:
					}
				}
				t.Reset(watchdog)
			case <-t.C:
				hung = true
				cmd.Process.Kill()
				return
			}
		}
	}()
	last := -1
	sc := bufio.NewScanner(stdout)
	sc.Buffer(make([]byte, 1<<20), 1<<28)
	for sc.Scan() {
		line := sc.Bytes()
		select {
		case progress <- struct{}{}:
		default:
		}
		if len(line) > 2 && line[0] == 'B' && line[1] == ' ' {
			last, _ = strconv.Atoi(string(line[2:]))
			continue
		}
		if len(line) == 0 || line[0] != '{' {
			continue
		}
		var head struct {
			T string `json:"t"`
		}
		if json.Unmarshal(line, &head) != nil {
			continue
		}
		switch head.T {
		case "viol", "replayed":
			var rl runLine
			if err := json.Unmarshal(line, &rl); err != nil {
				cr.err = fmt.Errorf("bad worker line: %v", err)
				continue
			}
			if rl.Viol != nil {
				cr.viol = &found{I: rl.I, Seed: rl.Seed, Viol: *rl.Viol, Tape: rl.Tape, Sample: rl.Sample, Sched: rl.Sched}
			}
			if head.T == "replayed" {
				cr.sum = &summary{Runs: 1, Next: to}
				cr.corpus = append(cr.corpus, rl.Corpus...)
			}
		case "corpus":
			var rl runLine
			if json.Unmarshal(line, &rl) == nil {
				cr.corpus = append(cr.corpus, rl.Corpus...)
			}
		case "summary":
			var s summary
			if err := json.Unmarshal(line, &s); err != nil {
				cr.err = fmt.Errorf("bad summary: %v", err)
				continue
			}
			cr.sum = &s
		}
	}
	werr := cmd.Wait()
	close(done)
	if cr.viol != nil {
		cr.viol.From = from
		cr.viol.GMP = gmp
	}
	if hung {
		cr.err = fmt.Errorf("worker made no progress for %v in run %d of %s (a loop outside the simulator's reach?)", watchdog, last, prop)
		return cr
	}
	if werr != nil {
		code := -1
		if ee, ok := werr.(*exec.ExitError); ok {
			code = ee.ExitCode()
		}
		es := stderr.String()
		switch {
		case code == raceExit && strings.Contains(es, "WARNING: DATA RACE"):
			if harnessRace(es) {
				cr.err = fmt.Errorf("race report located in the harness/simulator (run %d):\n%s", last, clip(es, 6000))
				return cr
			}
			cr.viol = &found{From: from, GMP: gmp, I: last, Viol: Violation{Class: prop + ":data-race", Key: raceKey(es), Detail: clip(es, 6000)}, Race: es}
			cr.sum = &summary{Next: last + 1, To: to}
			if order == "desc" {
				cr.sum.Next = last - 1
			}
		case strings.Contains(es, "fatal error:") || strings.Contains(es, "panic:") || strings.Contains(es, "goroutine "):
			// the process died: a crash of the library inside a run is a finding of that run
			cr.viol = &found{From: from, GMP: gmp, I: last, Viol: Violation{Class: prop + ":process-crash", Key: crashKey(es), Detail: clip(es, 4000)}}
			cr.sum = &summary{Next: last + 1, To: to}
		default:
			cr.err = fmt.Errorf("worker exited with %v (run %d)\n%s", werr, last, clip(es, 3000))
		}
	}
	if cr.sum == nil && cr.err == nil {
		cr.err = fmt.Errorf("worker produced no summary (run %d)\n%s", last, clip(stderr.String(), 2000))
	}
	return cr
}

func clip(s string, n int) string {
	if len(s) > n {
		return s[:n] + "\n…"
	}
	return s
}

// A race report is a verdict about the library only when one of the two accesses is a WRITE
// whose innermost jsonpath/harness frame lies in the library.  Anything else (both sides in
// the harness or simulator, or a harness write against a library read) is a bug of the
// machinery (DESIGN.md §2.2) and ends the check with status 2.
type raceSide struct {
	write  bool
	owner  string // "lib", "harness", ""
	frame  string
	frames []string
}

func raceSides(report string) []raceSide {
	var sides []raceSide
	var cur *raceSide
	flush := func() {
		if cur != nil {
			for _, f := range cur.frames {
				name := f
				if i := strings.LastIndex(name, "("); i > 0 {
					name = name[:i]
				}
				switch {
				case strings.HasPrefix(name, "github.com/AsaiYusuke/jsonpath."):
					cur.owner, cur.frame = "lib", strings.TrimPrefix(name, "github.com/AsaiYusuke/jsonpath.")
				case strings.HasPrefix(name, "verif/simrt.") || strings.HasPrefix(name, "main.") || strings.HasPrefix(name, "verif/worker."):
					cur.owner, cur.frame = "harness", name
				default:
					continue
				}
				break
			}
			sides = append(sides, *cur)
			cur = nil
		}
	}
	for _, l := range strings.Split(report, "\n") {
		t := strings.TrimSpace(l)
		low := strings.ToLower(t)
		switch {
		case strings.HasPrefix(low, "write at ") || strings.HasPrefix(low, "previous write at ") || strings.HasPrefix(low, "atomic write") || strings.HasPrefix(low, "previous atomic write"):
			flush()
			cur = &raceSide{write: true}
		case strings.HasPrefix(low, "read at ") || strings.HasPrefix(low, "previous read at ") || strings.HasPrefix(low, "atomic read") || strings.HasPrefix(low, "previous atomic read"):
			flush()
			cur = &raceSide{}
		case strings.HasPrefix(t, "Goroutine ") || strings.HasPrefix(t, "====="):
			flush()
		case cur != nil && t != "" && !strings.HasPrefix(t, "/") && !strings.Contains(t, ".go:") && !strings.HasPrefix(t, "["):
			cur.frames = append(cur.frames, t)
		}
		if len(sides) >= 2 {
			break
		}
	}
	flush()
	if len(sides) > 2 {
		sides = sides[:2]
	}
	return sides
}

func harnessRace(report string) bool {
	for _, s := range raceSides(report) {
		if s.write && s.owner == "lib" {
			return false
		}
	}
	return true
}

// raceKey identifies a race by the two innermost library/harness functions.
func raceKey(report string) string {
	var ks []string
	for _, s := range raceSides(report) {
		rw := "read "
		if s.write {
			rw = "write "
		}
		ks = append(ks, rw+s.frame)
	}
	sort.Strings(ks)
	return strings.Join(ks, " <-> ")
}

func crashKey(es string) string {
	for _, l := range strings.Split(es, "\n") {
		if strings.HasPrefix(l, "fatal error:") || strings.HasPrefix(l, "panic:") {
			return clip(l, 120)
		}
	}
	return "crash"
}

var (
	gomaxprocs = "1"
	watchdog   = 240 * time.Second
	tierName   = "quick"
)

// batch is the aggregated outcome of many chunks.
type batch struct {
	runs, ops, judged, aborted int
	steps, switches            int64
	probes, faults             map[string]int
	sigs, cases                map[uint64]struct{}
	samples                    [][]string
	digests                    map[int]uint64
	viol                       *found
	corpus                     []CorpusItem
	sites                      int
	wall                       float64
	chunks                     int
	longLived                  int
	spans                      [][2]int // [from,to) of every worker process of the batch
}

func newBatch() *batch {
	return &batch{probes: map[string]int{}, faults: map[string]int{}, sigs: map[uint64]struct{}{}, cases: map[uint64]struct{}{}, digests: map[int]uint64{}}
}

func (b *batch) add(s *summary) {
	b.runs += s.Runs
	b.ops += s.Ops
	b.judged += s.Judged
	b.aborted += s.Aborted
	b.steps += s.Steps
	b.switches += s.Switches
	for k, v := range s.Probes {
		b.probes[k] += v
	}
	for k, v := range s.Faults {
		b.faults[k] += v
	}
	for _, x := range s.SwitchSig {
		b.sigs[x] = struct{}{}
	}
	for _, x := range s.Cases {
		b.cases[x] = struct{}{}
	}
	if len(b.samples) < 3 {
		b.samples = append(b.samples, s.Samples...)
		if len(b.samples) > 3 {
			b.samples = b.samples[:3]
		}
	}
	for k, v := range s.ODigests {
		i, _ := strconv.Atoi(k)
		b.digests[i] = v // the batch keeps OUTCOME digests (R-order compares outcomes, not schedules)
	}
	if s.Sites > 0 {
		b.sites = s.Sites
	}
}

const longSpan = 24

// spanStart returns the first run index of the worker process that executed run i.
func (b *batch) spanStart(i int) int {
	from := i
	for _, sp := range b.spans {
		if sp[0] <= i && i < sp[1] && sp[0] < from {
			from = sp[0]
		}
	}
	return from
}

// runBatch executes runs [0,total) of a property in chunks over `par` parallel workers, until
// done, a violation is found, or the deadline passes.  The violation with the smallest run
// index among the chunks that ran is reported.
func runBatch(bin, prop string, seed uint64, total, chunk, par int, deadline time.Time, order string, extra ...string) (*batch, error) {
	if par <= 0 {
		par = runtime.NumCPU()
	}
	t0 := time.Now()
	b := newBatch()
	type span struct{ from, to int }
	var mu sync.Mutex
	next := 0
	var queue []span // re-queued remainders
	stop := false
	var firstErr error
	take := func() (span, bool) {
		mu.Lock()
		defer mu.Unlock()
		if stop || firstErr != nil {
			return span{}, false
		}
		if len(queue) > 0 {
			s := queue[0]
			queue = queue[1:]
			return s, true
		}
		if next >= total || time.Now().After(deadline) {
			return span{}, false
		}
		// one worker process in sixteen lives 24 times as long: state that a process accumulates
		// (tables that fill up after so many distinct paths, patterns or documents) is reached
		// there, and the window replay re-executes that process up to the failing run
		n := chunk
		if chunk > 0 && (next/chunk)%16 == 9 {
			n = chunk * longSpan
			b.longLived++
		}
		s := span{next, next + n}
		if s.to > total {
			s.to = total
		}
		next = s.to
		return s, true
	}
	var wg sync.WaitGroup
	for w := 0; w < par; w++ {
		wg.Add(1)
		go func() {
			defer wg.Done()
			for {
				s, ok := take()
				if !ok {
					return
				}
				// every fourth worker process runs with GOMAXPROCS=4: code that sizes itself by
				// the number of CPUs (worker pools, sharded caches) behaves differently there; a
				// run's events do not depend on it (determinism self-test)
				gmp := gomaxprocs
				if chunk > 0 && (s.from/chunk)%4 == 3 {
					gmp = "4"
				}
				cr := runChunkEnv(bin, prop, seed, s.from, s.to, order, gmp, extra...)
				mu.Lock()
				b.chunks++
				b.spans = append(b.spans, [2]int{s.from, s.to})
				if cr.err != nil {
					if firstErr == nil {
						firstErr = cr.err
					}
					mu.Unlock()
					return
				}
				if cr.sum != nil {
					b.add(cr.sum)
				}
				b.corpus = append(b.corpus, cr.corpus...)
				if cr.viol != nil {
					if b.viol == nil || cr.viol.I < b.viol.I {
						b.viol = cr.viol
					}
					stop = true
				} else if cr.sum != nil && cr.sum.Tainted && order == "asc" && cr.sum.Next < s.to {
					queue = append(queue, span{cr.sum.Next, s.to})
				}
				mu.Unlock()
			}
		}()
	}
	wg.Wait()
	b.wall = time.Since(t0).Seconds()
	return b, firstErr
}
