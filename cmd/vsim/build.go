package main

import (
	"bytes"
	"fmt"
	"os"
	"os/exec"
	"path/filepath"
	"strings"
	"time"

	"verif/internal/instr"
)

// verifDir is the root of the verification tree: the parent of the directory holding this
// executable (so that a snapshot of /verif elsewhere is self-contained), /verif otherwise.
var verifDir = func() string {
	if exe, err := os.Executable(); err == nil {
		if exe, err = filepath.EvalSymlinks(exe); err == nil {
			d := filepath.Dir(filepath.Dir(exe))
			if _, err := os.Stat(filepath.Join(d, "simrt", "go.mod")); err == nil {
				return d
			}
		}
	}
	return "/verif"
}()

func repoDir() string {
	if d := os.Getenv("VERIF_REPO"); d != "" {
		return d
	}
	return "/repo"
}

func goEnv() []string {
	env := os.Environ()
	env = append(env, "GOFLAGS=-mod=mod", "GOPROXY=off", "GOSUMDB=off", "GOTOOLCHAIN=local", "CGO_ENABLED=1")
	return env
}

// exit2 reports a machinery problem: never a verdict.
func exit2(format string, a ...interface{}) {
	fmt.Fprintf(os.Stderr, "vsim: "+format+"\n", a...)
	fmt.Printf("MACHINERY-ERROR: "+format+"\n", a...)
	os.Exit(2)
}

type buildEnv struct {
	dir      string
	worker   string // instrumented, plain
	race     string // instrumented, -race
	pristine string // un-instrumented tree
	instr    *instr.Result
	buildS   float64
}

func (b *buildEnv) cleanup() {
	if b != nil && b.dir != "" {
		if os.Getenv("VSIM_KEEP") != "" {
			fmt.Fprintln(os.Stderr, "vsim: keeping build directory", b.dir)
			return
		}
		os.RemoveAll(b.dir)
	}
}

func modFile(jsonpathDir string) string {
	return fmt.Sprintf(`module verif

go 1.23

require github.com/AsaiYusuke/jsonpath v0.0.0
require verif/simrt v0.0.0

replace github.com/AsaiYusuke/jsonpath => %s
replace verif/simrt => %s/simrt
`, jsonpathDir, verifDir)
}

func goBuild(modfile, out string, race bool) error {
	args := []string{"build", "-trimpath", "-modfile=" + modfile, "-o", out}
	if race {
		args = append(args, "-race")
	}
	args = append(args, "verif/worker")
	cmd := exec.Command("go", args...)
	cmd.Dir = verifDir
	cmd.Env = goEnv()
	var buf bytes.Buffer
	cmd.Stdout, cmd.Stderr = &buf, &buf
	if err := cmd.Run(); err != nil {
		return fmt.Errorf("go %s: %v\n%s", strings.Join(args, " "), err, buf.String())
	}
	return nil
}

// prepare instruments the current working tree of the repository and builds the workers.
func prepare(needPlain, needRace, needPristine, fidelity bool) *buildEnv {
	t0 := time.Now()
	dir, err := os.MkdirTemp("", "vsim-")
	if err != nil {
		exit2("mktemp: %v", err)
	}
	b := &buildEnv{dir: dir}
	jp := filepath.Join(dir, "jsonpath")
	os.MkdirAll(jp, 0o755)
	res, err := instr.Instrument(repoDir(), jp, verifDir+"/simrt", false)
	if err != nil {
		b.cleanup()
		exit2("instrumentation failed: %v", err)
	}
	b.instr = res
	simMod := filepath.Join(dir, "sim.mod")
	priMod := filepath.Join(dir, "pristine.mod")
	os.WriteFile(simMod, []byte(modFile(jp)), 0o644)
	os.WriteFile(priMod, []byte(modFile(repoDir())), 0o644)

	type job struct {
		name string
		f    func() error
	}
	var jobs []job
	if needPlain {
		b.worker = filepath.Join(dir, "worker")
		jobs = append(jobs, job{"plain worker", func() error { return goBuild(simMod, b.worker, false) }})
	}
	if needRace {
		b.race = filepath.Join(dir, "worker-race")
		jobs = append(jobs, job{"race worker", func() error { return goBuild(simMod, b.race, true) }})
	}
	if needPristine {
		b.pristine = filepath.Join(dir, "pristine")
		jobs = append(jobs, job{"pristine worker", func() error { return goBuild(priMod, b.pristine, false) }})
	}
	if fidelity {
		jobs = append(jobs, job{"fidelity suite", func() error { return fidelitySuite(dir) }})
	}
	errs := make(chan error, len(jobs))
	for _, j := range jobs {
		j := j
		go func() {
			if err := j.f(); err != nil {
				errs <- fmt.Errorf("%s: %v", j.name, err)
			} else {
				errs <- nil
			}
		}()
	}
	var first error
	for range jobs {
		if err := <-errs; err != nil && first == nil {
			first = err
		}
	}
	if first != nil {
		b.cleanup()
		exit2("build failed: %v", first)
	}
	b.buildS = time.Since(t0).Seconds()
	return b
}

// fidelitySuite runs the repository's own tests against an instrumented copy with the
// simulator inert.  A failure that the plain tree does not show is an instrumentation bug.
func fidelitySuite(dir string) error {
	fd := filepath.Join(dir, "fidelity")
	os.MkdirAll(fd, 0o755)
	if _, err := instr.Instrument(repoDir(), fd, verifDir+"/simrt", true); err != nil {
		return err
	}
	run := func(d string) (bool, string) {
		cmd := exec.Command("go", "test", "-vet=off", "-count=1", "./...")
		cmd.Dir = d
		cmd.Env = goEnv()
		out, err := cmd.CombinedOutput()
		return err == nil, string(out)
	}
	ok, out := run(fd)
	if ok {
		return nil
	}
	// does the plain tree fail too?  then it is not an instrumentation problem
	okPlain, _ := run(repoDir())
	if !okPlain {
		return nil
	}
	if len(out) > 3000 {
		out = out[len(out)-3000:]
	}
	return fmt.Errorf("the repository's test suite fails on the instrumented copy but passes on the plain tree:\n%s", out)
}
