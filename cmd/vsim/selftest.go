package main

import (
	"fmt"
	"os"
	"sort"
	"strconv"
	"sync"
	"time"
)

// cmdSelftest validates the machinery itself (DESIGN.md §7).
func cmdSelftest(args []string) int {
	switch args[0] {
	case "determinism":
		return selftestDeterminism(args[1:])
	}
	exit2("unknown selftest %q", args[0])
	return 2
}

// selftestDeterminism: the same run seeds executed in many processes at several GOMAXPROCS
// values (and in reversed order within a process) must give identical per-run event digests.
func selftestDeterminism(args []string) int {
	runs, procs := 200, 30
	ids := []string{"C04", "C05", "C06", "C07", "C13", "C14", "C19"}
	for i := 0; i < len(args); i++ {
		switch args[i] {
		case "--runs":
			i++
			runs, _ = strconv.Atoi(args[i])
		case "--procs":
			i++
			procs, _ = strconv.Atoi(args[i])
		case "--props":
			i++
			ids = nil
			for _, p := range splitComma(args[i]) {
				ids = append(ids, p)
			}
		}
	}
	seed := seedFromEnv()
	curSeed = seed
	env := prepare(true, true, true, false)
	defer env.cleanup()
	bad := 0
	for _, id := range ids {
		p := props[id]
		bin := env.worker
		if p.race {
			bin = env.race
		}
		c := &checkCtx{p: p, env: env, bin: bin, seed: seed, tier: "quick", extra: map[string]interface{}{}, t0: time.Now()}
		extraArgs = nil
		if p.pre != nil {
			p.pre(c)
		}
		type res struct {
			gmp, order string
			dig        map[int]uint64
			err        error
		}
		results := make([]res, procs)
		var wg sync.WaitGroup
		sem := make(chan struct{}, 16)
		for k := 0; k < procs; k++ {
			k := k
			wg.Add(1)
			go func() {
				defer wg.Done()
				sem <- struct{}{}
				defer func() { <-sem }()
				gmp := []string{"1", "4", "16"}[k%3]
				order := "asc"
				if k%5 == 4 {
					order = "desc"
				}
				cr := runChunkGMP(bin, id, seed, 0, runs, order, gmp)
				r := res{gmp: gmp, order: order, err: cr.err}
				if cr.sum != nil {
					r.dig = map[int]uint64{}
					for kk, v := range cr.sum.Digests {
						i, _ := strconv.Atoi(kk)
						r.dig[i] = v
					}
				}
				if cr.viol != nil && cr.err == nil {
					r.err = fmt.Errorf("violation during determinism test: %s", cr.viol.Viol.Class)
				}
				results[k] = r
			}()
		}
		wg.Wait()
		ref := results[0]
		diffs := 0
		for k, r := range results {
			if r.err != nil {
				fmt.Printf("%s: process %d (GOMAXPROCS=%s, %s): %v\n", id, k, r.gmp, r.order, r.err)
				diffs++
				continue
			}
			if len(r.dig) != runs {
				fmt.Printf("%s: process %d reported %d digests, expected %d\n", id, k, len(r.dig), runs)
				diffs++
				continue
			}
			var ks []int
			for i := range r.dig {
				ks = append(ks, i)
			}
			sort.Ints(ks)
			for _, i := range ks {
				if r.dig[i] != ref.dig[i] {
					fmt.Printf("%s: run %d differs between process 0 (GOMAXPROCS=%s,%s) and process %d (GOMAXPROCS=%s,%s)\n", id, i, ref.gmp, ref.order, k, r.gmp, r.order)
					diffs++
					break
				}
			}
		}
		fmt.Printf("determinism %s: %d runs x %d processes (GOMAXPROCS 1/4/16, every 5th process in descending order): %d divergent processes\n", id, runs, procs, diffs)
		bad += diffs
	}
	if bad > 0 {
		fmt.Println("DETERMINISM SELFTEST FAILED")
		return 2
	}
	fmt.Println("determinism selftest ok")
	return 0
}

func runChunkGMP(bin, prop string, seed uint64, from, to int, order, gmp string) chunkResult {
	old := gomaxprocs
	_ = old
	return runChunkEnv(bin, prop, seed, from, to, order, gmp, "-digests")
}

func splitComma(s string) []string {
	var out []string
	cur := ""
	for _, r := range s {
		if r == ',' {
			if cur != "" {
				out = append(out, cur)
			}
			cur = ""
		} else {
			cur += string(r)
		}
	}
	if cur != "" {
		out = append(out, cur)
	}
	return out
}

var _ = os.Getenv
