package main

func cmdSelftest(args []string) int {
	exit2("selftest not implemented yet")
	return 2
}
