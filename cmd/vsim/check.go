package main

import (
	"encoding/json"
	"fmt"
	"os"
	"path/filepath"
	"sort"
	"strconv"
	"strings"
	"sync"
	"time"
)

type propDef struct {
	id        string
	race      bool
	pristine  bool
	level     string
	quickRuns int
	thorRuns  int
	quickS    int // wall-clock cap of the run phase (seconds)
	thorS     int
	chunk     int
	rule      string
	assume    []string
	rorder    bool // R-order: re-execute a sample of worker processes in descending order and compare per-run digests
	// pre runs before the batch (R-pristine expectations …); post after it (R-order …)
	pre  func(c *checkCtx)
	post func(c *checkCtx) *found
}

var props = map[string]*propDef{}

func register(p *propDef) { props[p.id] = p }

type checkCtx struct {
	preViolation *found // a violation established by the pre-phase (C19: fresh-process nondeterminism)
	p            *propDef
	env          *buildEnv
	bin          string
	seed         uint64
	tier         string
	b            *batch
	extra        map[string]interface{}
	t0           time.Time
	nowRuns      int
}

type replayFile struct {
	Property string   `json:"property"`
	Seed     uint64   `json:"seed"`
	RunIndex int      `json:"run_index"`
	RunSeed  uint64   `json:"run_seed"`
	Tier     string   `json:"tier"`
	Class    string   `json:"class"`
	Key      string   `json:"key"`
	Detail   string   `json:"detail"`
	Tape     []uint32 `json:"tape"`
	Cold     bool     `json:"cold_start,omitempty"` // replay in a process that parsed nothing before (worker flag -cold)
	GMP      string   `json:"gomaxprocs,omitempty"` // GOMAXPROCS of the worker process that found it
	AscFrom  *int     `json:"asc_from,omitempty"`   // R-order: where the ascending execution begins (the batch's worker process began there)
	Window   []int    `json:"window,omitempty"`     // [from,to]: run indices to execute in one process when no single tape reproduces
	TapeLen0 int      `json:"tape_len_before_shrinking"`
	Trace    []string `json:"trace"`
	Schedule []string `json:"schedule_and_faults,omitempty"`
	Race     string   `json:"race_report,omitempty"`
	Note     string   `json:"note,omitempty"`
}

// replayExtra are worker flags a replay needs in addition (e.g. -cold).
var replayExtra []string

// curSeed is the base seed of the running check (workers derive per-invocation material such
// as the C19 corpus from it, also when replaying a tape).
var curSeed uint64

func seedFromEnv() uint64 {
	if s := os.Getenv("VERIF_SEED"); s != "" {
		if v, err := strconv.ParseUint(s, 10, 64); err == nil {
			return v
		}
		if v, err := strconv.ParseInt(s, 10, 64); err == nil {
			return uint64(v)
		}
	}
	return 1
}

// replayOnce runs one tape in a fresh worker process.
func replayOnce(bin, prop string, tape []uint32) (*found, []string, error) {
	f, err := os.CreateTemp("", "vsim-tape-*.json")
	if err != nil {
		return nil, nil, err
	}
	defer os.Remove(f.Name())
	json.NewEncoder(f).Encode(map[string]interface{}{"tape": tape})
	f.Close()
	cr := runChunk(bin, prop, curSeed, 0, 1, "asc", append([]string{"-tape", f.Name()}, replayExtra...)...)
	if cr.err != nil {
		return nil, nil, cr.err
	}
	return cr.viol, nil, nil
}

// shrink minimises the tape while the same violation class persists.
func shrink(bin, prop string, v *found, budget time.Duration) (*found, int) {
	if len(v.Tape) == 0 {
		return v, 0
	}
	deadline := time.Now().Add(budget)
	best := v
	tries := 0
	same := func(f *found) bool { return f != nil && f.Viol.Class == v.Viol.Class }
	try := func(t []uint32) bool {
		if time.Now().After(deadline) {
			return false
		}
		tries++
		f, _, err := replayOnce(bin, prop, t)
		if err != nil || !same(f) {
			return false
		}
		// the worker reports the tape it actually consumed: adopt it (drops unread tail)
		nt := f.Tape
		if len(nt) == 0 || len(nt) > len(t) {
			nt = t
		}
		f.Tape = nt
		if f.Race == "" {
			f.Race = best.Race
		}
		f.I, f.Seed = v.I, v.Seed
		best = f
		return true
	}
	// first: does the recorded tape reproduce at all?
	if !try(append([]uint32(nil), v.Tape...)) {
		return v, tries
	}
	improved := true
	for improved && time.Now().Before(deadline) {
		improved = false
		// 1. truncate the tail (exhausted tape reads zeros)
		for n := len(best.Tape) / 2; n >= 1; n /= 2 {
			for len(best.Tape) > n && try(append([]uint32(nil), best.Tape[:len(best.Tape)-n]...)) {
				improved = true
			}
		}
		// 2. delete spans
		for n := len(best.Tape) / 2; n >= 1; n /= 2 {
			for i := 0; i+n <= len(best.Tape); {
				t := append(append([]uint32(nil), best.Tape[:i]...), best.Tape[i+n:]...)
				if try(t) {
					improved = true
				} else {
					i += n
				}
				if time.Now().After(deadline) {
					break
				}
			}
			if len(best.Tape) > 400 && n < len(best.Tape)/16 {
				break // keep the pass affordable on long tapes
			}
		}
		// 3. zero / halve values
		if len(best.Tape) <= 400 {
			for i := 0; i < len(best.Tape) && time.Now().Before(deadline); i++ {
				if best.Tape[i] == 0 {
					continue
				}
				t := append([]uint32(nil), best.Tape...)
				t[i] = 0
				if try(t) {
					improved = true
					continue
				}
				t = append([]uint32(nil), best.Tape...)
				t[i] /= 2
				if t[i] != best.Tape[i] && try(t) {
					improved = true
				}
			}
		}
	}
	return best, tries
}

type knownFile struct {
	Known []knownEntry `json:"known"`
	Fixed []string     `json:"fixed"`
}
type knownEntry struct {
	Property string `json:"property"`
	Class    string `json:"class"`
	Key      string `json:"key"`
	What     string `json:"what"`
}

func loadKnown() knownFile {
	var k knownFile
	b, err := os.ReadFile(filepath.Join(verifDir, "known_findings.json"))
	if err == nil {
		json.Unmarshal(b, &k)
	}
	return k
}

func (k knownFile) match(prop string, v *found) *knownEntry {
	for i := range k.Known {
		e := &k.Known[i]
		if e.Property == prop && e.Class == v.Viol.Class && e.Key == v.Viol.Key {
			return e
		}
	}
	return nil
}

func cmdCheck(id string, tier string, replayPath string) int {
	p := props[id]
	if p == nil {
		exit2("unknown property %s", id)
	}
	tierName = tier
	seed := seedFromEnv()
	t0 := time.Now()
	env := prepare(!p.race, p.race, p.pristine, replayPath == "")
	defer env.cleanup()
	bin := env.worker
	if p.race {
		bin = env.race
	}
	c := &checkCtx{p: p, env: env, bin: bin, seed: seed, tier: tier, extra: map[string]interface{}{}, t0: t0}
	if replayPath != "" {
		return cmdReplay(c, replayPath)
	}
	curSeed = seed
	if p.pre != nil {
		p.pre(c)
	}
	total, capS := p.quickRuns, p.quickS
	if tier == "thorough" {
		total, capS = p.thorRuns, p.thorS
	}
	if c.preViolation != nil {
		return reportFreshNondet(c, c.preViolation)
	}
	deadline := time.Now().Add(time.Duration(capS) * time.Second)
	var batchArgs []string
	if p.rorder {
		batchArgs = append(batchArgs, "-digests")
	}
	b, err := runBatch(bin, id, seed, total, p.chunk, 0, deadline, "asc", batchArgs...)
	if err != nil {
		env.cleanup()
		exit2("%v", err)
	}
	c.b = b
	v := b.viol
	if v == nil && p.post != nil {
		v = p.post(c)
	}
	if v == nil && p.rorder {
		v = rOrder(c)
	}
	if b.runs > 0 && b.aborted*5 > b.runs && v == nil {
		env.cleanup()
		exit2("%d of %d runs were aborted (budget/deadlock) without a verdict: the machinery cannot judge this tree", b.aborted, b.runs)
	}
	known := loadKnown()
	nviol := 0
	code := 0
	var replayRel string
	if v != nil {
		if e := known.match(id, v); e != nil {
			fmt.Printf("KNOWN-FINDING: property=%s %s\n", id, e.What)
		} else {
			nviol = 1
			code = 1
			if strings.HasSuffix(v.Viol.Class, rOrderSuffix) {
				return reportROrder(c, v)
			}
			if v.Cold {
				replayExtra = []string{"-cold"}
			}
			replayGMP = v.GMP
			tape0 := len(v.Tape)
			sv, tries := shrink(bin, id, v, 90*time.Second)
			rf := replayFile{Property: id, Seed: seed, RunIndex: v.I, RunSeed: v.Seed, Tier: tier, Class: sv.Viol.Class, Key: sv.Viol.Key,
				Detail: sv.Viol.Detail, Tape: sv.Tape, TapeLen0: tape0, Trace: sv.Sample, Schedule: sv.Sched, Race: sv.Race, Cold: v.Cold, GMP: v.GMP}
			os.MkdirAll(filepath.Join(verifDir, "replays"), 0o755)
			path := filepath.Join(verifDir, "replays", fmt.Sprintf("%s-%d-%d.json", id, seed, v.I))
			jb, _ := json.MarshalIndent(rf, "", " ")
			os.WriteFile(path, jb, 0o644)
			replayRel = path
			// confirm in a fresh process; when the single run does not reproduce on its own
			// (the violation depends on what the same process executed before), fall back
			// to the smallest window of consecutive runs ending at the failing one
			confirmed := false
			if len(sv.Tape) > 0 {
				for attempt := 0; attempt < 2 && !confirmed; attempt++ {
					if f, _, err := replayOnce(bin, id, sv.Tape); err == nil && f != nil && f.Viol.Class == sv.Viol.Class {
						confirmed = true
					}
				}
				if !confirmed && len(v.Tape) > 0 {
					// the minimised tape does not reproduce: fall back to the tape as recorded
					if f, _, err := replayOnce(bin, id, v.Tape); err == nil && f != nil && f.Viol.Class == v.Viol.Class {
						confirmed = true
						sv = f
						sv.I, sv.Seed = v.I, v.Seed
						if len(sv.Tape) == 0 {
							sv.Tape = v.Tape
						}
						rf.Tape, rf.Trace, rf.Schedule, rf.Detail, rf.Key = sv.Tape, sv.Sample, sv.Sched, sv.Viol.Detail, sv.Viol.Key
					}
				}
			}
			if !confirmed {
				rf.Tape = nil
				for k := 0; ; k = k*2 + 1 {
					from := v.I - k
					if from < v.From {
						from = v.From
					}
					if replayWindow(bin, id, seed, from, v.I, v.Viol.Class) {
						confirmed = true
						rf.Window = []int{from, v.I}
						rf.Note = "replay executes run indices window[0]..window[1] of seed in one process"
						break
					}
					if from == v.From {
						break
					}
				}
			}
			jb, _ = json.MarshalIndent(rf, "", " ")
			os.WriteFile(path, jb, 0o644)
			fmt.Printf("violation class=%s key=%q (run %d, tape %d -> %d values, %d shrink executions, replay confirmed=%v)\n%s\n",
				sv.Viol.Class, sv.Viol.Key, v.I, tape0, len(sv.Tape), tries, confirmed, clip(sv.Viol.Detail, 2500))
			for _, l := range sv.Sample {
				fmt.Println("  ", clip(l, 300))
			}
			if !confirmed {
				env.cleanup()
				exit2("violation of %s did not reproduce from its replay file %s: not reported as a verdict", id, path)
			}
			fmt.Printf("VIOLATION property=%s replay=%s\n", id, path)
		}
	}
	writeEvidence(c, nviol, replayRel)
	fmt.Printf("%s %s: runs=%d ops=%d judged=%d steps=%d switches=%d distinct-schedules=%d distinct-cases=%d wall=%.1fs (build %.1fs) violations=%d\n",
		id, tier, b.runs, b.ops, b.judged, b.steps, b.switches, len(b.sigs), len(b.cases), time.Since(t0).Seconds(), env.buildS, nviol)
	return code
}

// replayWindow executes runs [from,to] in one worker process and reports whether run `to`
// shows a violation of the given class.
func replayWindow(bin, prop string, seed uint64, from, to int, class string) bool {
	cr := runChunk(bin, prop, seed, from, to+1, "asc", replayExtra...)
	return cr.err == nil && cr.viol != nil && cr.viol.I == to && cr.viol.Viol.Class == class
}

func cmdReplay(c *checkCtx, path string) int {
	p, bin := c.p, c.bin
	b, err := os.ReadFile(path)
	if err != nil {
		exit2("%v", err)
	}
	var rf replayFile
	if err := json.Unmarshal(b, &rf); err != nil {
		exit2("%v", err)
	}
	curSeed, c.seed, c.tier = rf.Seed, rf.Seed, rf.Tier
	tierName = rf.Tier
	if rf.Cold {
		replayExtra = []string{"-cold"}
	}
	replayGMP = rf.GMP
	if p.pre != nil {
		p.pre(c)
	}
	var f *found
	if len(rf.Tape) > 0 {
		f, _, err = replayOnce(bin, p.id, rf.Tape)
		if err != nil {
			exit2("%v", err)
		}
	} else if len(rf.Window) == 2 && strings.HasSuffix(rf.Class, freshNondetSuffix) {
		if a, b, differs := freshNondet(c, rf.Window[0]); differs {
			fmt.Printf("replay of %s: class=%s: corpus item %d still answers differently in fresh processes:\n  %s\n  %s\n", path, rf.Class, rf.Window[0], clip(a, 400), clip(b, 400))
			fmt.Printf("VIOLATION property=%s replay=%s\n", p.id, path)
			return 1
		}
		fmt.Printf("replay of %s: no violation on this tree\n", path)
		return 0
	} else if len(rf.Window) == 2 && strings.HasSuffix(rf.Class, rOrderSuffix) {
		ascFrom := rf.Window[0]
		if rf.AscFrom != nil {
			ascFrom = *rf.AscFrom
		}
		if rOrderDiffers(c, ascFrom, rf.Window[0], rf.Window[1]+1, rf.RunIndex) {
			fmt.Printf("replay of %s: class=%s: run %d still depends on what the process executed before\n", path, rf.Class, rf.RunIndex)
			fmt.Printf("VIOLATION property=%s replay=%s\n", p.id, path)
			return 1
		}
		fmt.Printf("replay of %s: no violation on this tree\n", path)
		return 0
	} else if len(rf.Window) == 2 {
		tierName = rf.Tier
		cr := runChunk(bin, p.id, rf.Seed, rf.Window[0], rf.Window[1]+1, "asc", replayExtra...)
		if cr.err != nil {
			exit2("%v", cr.err)
		}
		if cr.viol != nil && cr.viol.I == rf.Window[1] {
			f = cr.viol
		}
	} else {
		exit2("replay file %s holds neither a tape nor a window", path)
	}
	if f == nil {
		fmt.Printf("replay of %s: no violation on this tree\n", path)
		return 0
	}
	fmt.Printf("replay of %s: class=%s key=%q\n%s\n", path, f.Viol.Class, f.Viol.Key, clip(f.Viol.Detail, 3000))
	for _, l := range f.Sample {
		fmt.Println("  ", clip(l, 300))
	}
	fmt.Printf("VIOLATION property=%s replay=%s\n", p.id, path)
	return 1
}

func writeEvidence(c *checkCtx, nviol int, replay string) {
	b := c.b
	wall := time.Since(c.t0).Seconds()
	runS := b.wall
	if runS <= 0 {
		runS = 1
	}
	samples := []interface{}{}
	for _, s := range b.samples {
		samples = append(samples, s)
	}
	if len(samples) == 0 {
		samples = append(samples, "no sample recorded")
	}
	faultKinds := map[string]int{}
	for k, v := range b.faults {
		faultKinds[k] = v
	}
	stuck := []string{}
	cov := map[string]interface{}{
		"evaluations":                    b.runs,
		"distinct_nontrivial":            len(b.cases),
		"rule":                           c.p.rule,
		"samples":                        samples,
		"operations":                     b.ops,
		"oracle_comparisons":             b.judged,
		"simulated_time_steps":           b.steps,
		"simulated_time_note":            "the library has no clock; simulated time is scheduler steps (yield points executed)",
		"context_switches":               b.switches,
		"distinct_interleavings":         len(b.sigs),
		"distinct_interleavings_measure": "distinct hashes over the sequence of (yield site, from-task, to-task) of all context switches of a run",
		"runs_per_hour":                  int(float64(b.runs) / runS * 3600),
		"seeds_per_hour":                 int(float64(b.runs) / runS * 3600),
		"faults_fired":                   faultKinds,
		"reach_probes":                   b.probes,
		"aborted_runs":                   b.aborted,
		"yield_sites":                    b.sites,
		"worker_processes":               b.chunks,
		"long_lived_worker_processes":    b.longLived,
		"runs_per_long_lived_process":    c.p.chunk * longSpan,
		"real_components":                []string{"generated PEG parser", "parser actions", "evaluator (all syntax nodes)", "parseMutex (real sync.Mutex, acquired through TryLock)", "error types", "user-function dispatch"},
		"replaced_components":            []string{"storage policy of sync.Pool (Put->Get contract preserved)", "blocking in sync.Mutex.Lock (TryLock + simulated park)", "Go map iteration order", "goroutine scheduling (one runnable task at a time, chosen by the seeded scheduler)"},
		"harness_components":             []string{"caller tasks", "user callbacks", "documents", "configs"},
		"instrumentation":                map[string]int{"files": c.env.instr.Files, "sites": len(c.env.instr.Sites), "mutex_ops": c.env.instr.MutexOps, "pool_ops": c.env.instr.PoolOps, "map_ranges": c.env.instr.MapRanges},
		"build_s":                        c.env.buildS,
	}
	for k, v := range c.extra {
		cov[k] = v
	}
	_ = stuck
	if replay != "" {
		cov["replay"] = replay
	}
	ev := map[string]interface{}{
		"property_id": c.p.id,
		"tier":        c.tier,
		"seed":        int64(c.seed & 0x7fffffffffffffff),
		"level":       c.p.level,
		"coverage":    cov,
		"assumptions": c.p.assume,
		"wall_s":      wall,
		"violations":  nviol,
	}
	os.MkdirAll(filepath.Join(verifDir, "evidence"), 0o755)
	jb, _ := json.MarshalIndent(ev, "", " ")
	os.WriteFile(filepath.Join(verifDir, "evidence", c.p.id+".json"), jb, 0o644)
}

func sortedKeys(m map[string]int) []string {
	ks := make([]string, 0, len(m))
	for k := range m {
		ks = append(ks, k)
	}
	sort.Strings(ks)
	return ks
}

var _ = strings.TrimSpace

// rOrder is the R-order oracle (DESIGN.md §2.5): a sample of the worker processes of the main
// batch is executed again with the run indices in descending order, and a few runs each alone;
// per-run digests (every scheduling/pool/map decision and every outcome) must be equal.  A
// difference means that state leaked from one run into a later one.
func rOrder(c *checkCtx) *found {
	b := c.b
	if len(b.digests) == 0 {
		return nil
	}
	nchunks := 8
	if c.tier == "thorough" {
		nchunks = 64
	}
	type job struct{ from, to int }
	var jobs []job
	step := (b.runs / c.p.chunk) / nchunks
	if step < 1 {
		step = 1
	}
	for k := 0; k*c.p.chunk < b.runs && len(jobs) < nchunks; k += step {
		from := k * c.p.chunk
		to := from + c.p.chunk
		if _, ok := b.digests[to-1]; !ok {
			continue
		}
		jobs = append(jobs, job{from, to})
	}
	compared, alone := 0, 0
	var first *found
	var mu sync.Mutex
	var wg sync.WaitGroup
	sem := make(chan struct{}, 16)
	for _, j := range jobs {
		j := j
		wg.Add(1)
		go func() {
			defer wg.Done()
			sem <- struct{}{}
			defer func() { <-sem }()
			check := func(cr chunkResult, how string) {
				mu.Lock()
				defer mu.Unlock()
				if cr.err != nil || cr.sum == nil {
					return
				}
				for k, v := range cr.sum.ODigests {
					i, _ := strconv.Atoi(k)
					compared++
					if want, ok := b.digests[i]; ok && want != v && first == nil {
						first = &found{From: j.from, AscFrom: b.spanStart(i), I: i, Viol: Violation{Class: c.p.id + rOrderSuffix, Key: fmt.Sprintf("run %d", i),
							Detail: fmt.Sprintf("run %d of seed %d gives outcome digest %x when the process executes runs %d..%d in ascending order and %x %s: state leaked from one run into another", i, c.seed, want, j.from, j.to-1, v, how)}}
					}
				}
			}
			check(runChunk(c.bin, c.p.id, c.seed, j.from, j.to, "desc", "-digests"), "in descending order")
			// and the last run of the chunk alone, as the only run of a fresh process
			cr := runChunk(c.bin, c.p.id, c.seed, j.to-1, j.to, "asc", "-digests")
			mu.Lock()
			alone++
			mu.Unlock()
			check(cr, "alone in a fresh process")
		}()
	}
	wg.Wait()
	c.extra["r_order_runs_compared"] = compared
	c.extra["r_order_runs_alone"] = alone
	return first
}

const rOrderSuffix = ":run-depends-on-what-the-process-executed-before"

// rOrderDiffers re-executes runs [from,to) in ascending and descending order and alone, and
// reports whether run i's digest differs between any two of them.
func rOrderDiffers(c *checkCtx, ascFrom, from, to, i int) bool {
	get := func(cr chunkResult) (uint64, bool) {
		if cr.err != nil || cr.sum == nil {
			return 0, false
		}
		v, ok := cr.sum.ODigests[strconv.Itoa(i)]
		return v, ok
	}
	// ascending from where the batch's worker process began (a long-lived process has a
	// longer history than the window that is re-executed in descending order)
	a, ok1 := get(runChunk(c.bin, c.p.id, c.seed, ascFrom, to, "asc", "-digests"))
	d, ok2 := get(runChunk(c.bin, c.p.id, c.seed, from, to, "desc", "-digests"))
	o, ok3 := get(runChunk(c.bin, c.p.id, c.seed, i, i+1, "asc", "-digests"))
	return ok1 && ok2 && ok3 && (a != d || a != o)
}

func reportROrder(c *checkCtx, v *found) int {
	to := v.From + c.p.chunk
	rf := replayFile{Property: c.p.id, Seed: c.seed, RunIndex: v.I, Tier: c.tier, Class: v.Viol.Class, Key: v.Viol.Key, Detail: v.Viol.Detail,
		AscFrom: &v.AscFrom, Window: []int{v.From, to - 1}, Note: "R-order: replay executes runs window[0]..window[1] of seed in ascending order, in descending order, and run_index alone, and compares run_index's event digest"}
	os.MkdirAll(filepath.Join(verifDir, "replays"), 0o755)
	path := filepath.Join(verifDir, "replays", fmt.Sprintf("%s-%d-%d.json", c.p.id, c.seed, v.I))
	jb, _ := json.MarshalIndent(rf, "", " ")
	os.WriteFile(path, jb, 0o644)
	fmt.Printf("violation class=%s key=%q\n%s\n", v.Viol.Class, v.Viol.Key, v.Viol.Detail)
	if !rOrderDiffers(c, v.AscFrom, v.From, to, v.I) {
		c.env.cleanup()
		exit2("R-order difference of %s did not reproduce from %s: not reported as a verdict", c.p.id, path)
	}
	fmt.Printf("VIOLATION property=%s replay=%s\n", c.p.id, path)
	writeEvidence(c, 1, path)
	return 1
}

// c06Cold is C06's cold-start phase: K worker processes, each executing ONE run in which
// nothing was parsed before the tasks start, so that the lazy initialisation of the library's
// parser is itself exercised concurrently.
func c06Cold(c *checkCtx) *found {
	k := 96
	if c.tier == "thorough" {
		k = 3000
	}
	var mu sync.Mutex
	var first *found
	var firstErr error
	done := 0
	var wg sync.WaitGroup
	sem := make(chan struct{}, 16)
	for i := 0; i < k; i++ {
		i := i
		wg.Add(1)
		go func() {
			defer wg.Done()
			sem <- struct{}{}
			defer func() { <-sem }()
			mu.Lock()
			stop := first != nil || firstErr != nil
			mu.Unlock()
			if stop {
				return
			}
			cr := runChunk(c.bin, c.p.id, c.seed, 1000000+i, 1000000+i+1, "asc", "-cold")
			mu.Lock()
			defer mu.Unlock()
			done++
			if cr.err != nil {
				if firstErr == nil {
					firstErr = cr.err
				}
				return
			}
			if cr.sum != nil {
				c.b.add(cr.sum)
			}
			if cr.viol != nil && (first == nil || cr.viol.I < first.I) {
				first = cr.viol
				first.Cold = true
			}
		}()
	}
	wg.Wait()
	if firstErr != nil {
		c.env.cleanup()
		exit2("cold-start phase: %v", firstErr)
	}
	c.extra["cold_start_processes"] = done
	return first
}

func reportFreshNondet(c *checkCtx, v *found) int {
	known := loadKnown()
	if e := known.match(c.p.id, v); e != nil {
		fmt.Printf("KNOWN-FINDING: property=%s %s\n", c.p.id, e.What)
		return 0
	}
	rf := replayFile{Property: c.p.id, Seed: c.seed, RunIndex: v.I, Tier: c.tier, Class: v.Viol.Class, Key: v.Viol.Key, Detail: v.Viol.Detail,
		Window: []int{v.I, v.I}, Note: "replay executes corpus item window[0] of seed/tier as the first call of several fresh pristine processes and compares the outcomes"}
	os.MkdirAll(filepath.Join(verifDir, "replays"), 0o755)
	path := filepath.Join(verifDir, "replays", fmt.Sprintf("%s-%d-item%d.json", c.p.id, c.seed, v.I))
	jb, _ := json.MarshalIndent(rf, "", " ")
	os.WriteFile(path, jb, 0o644)
	fmt.Printf("violation class=%s key=%q\n%s\n", v.Viol.Class, v.Viol.Key, v.Viol.Detail)
	if _, _, differs := freshNondet(c, v.I); !differs {
		c.env.cleanup()
		exit2("nondeterminism of corpus item %d did not reproduce: not reported as a verdict", v.I)
	}
	fmt.Printf("VIOLATION property=%s replay=%s\n", c.p.id, path)
	c.b = newBatch()
	c.b.runs = 1
	c.b.cases[1], c.b.cases[2] = struct{}{}, struct{}{}
	c.b.samples = [][]string{{v.Viol.Detail}}
	writeEvidence(c, 1, path)
	return 1
}
