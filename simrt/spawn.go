package simrt

import (
	"runtime"
	"sync"
	"unsafe"
)

// Goroutines started by the library itself (`go` statements) and sync.WaitGroup.

//go:norace
func spawnAlloc() int {
	id := -1
	for i := int(nharness); i < int(ntasks); i++ {
		if tstate[i] == tsDone {
			id = i // the slot of a goroutine that has ended
			break
		}
	}
	if id < 0 {
		if ntasks >= MaxTasks {
			return -1
		}
		id = int(ntasks)
		ntasks++
	}
	tstate[id] = tsRunnable
	tblock[id] = nil
	tparent[id] = tparent[turn]
	tprio[id] = tprio[turn] - 1
	tlabel[id] = tlabel[turn]
	tsteps[id] = 0
	return id
}

//go:norace
func spawnPanicked(id int) {
	doAbort(AbortSpawn, id)
}

// Go replaces a `go` statement: the new goroutine becomes a task of the running simulation.
func Go(fn func()) {
	switch GetMode() {
	case ModeOff:
		go fn()
		return
	case ModeSolo:
		// reference execution: running the new goroutine to completion at once is one legal
		// schedule (fork/join parallelism); a goroutine that waits for its parent cannot be
		// run this way and ends the reference execution as DIVERGED
		fn()
		return
	}
	id := spawnAlloc()
	if id < 0 {
		panic("simrt: the library started more goroutines than the simulator has task slots")
	}
	go func() {
		defer func() {
			if r := recover(); r != nil && r != AbortPanic {
				spawnPanicked(id)
			}
			TaskDone(id)
		}()
		TaskEnter(id)
		fn()
	}()
	Yield(SeamTaskStart)
}

// AllDone reports whether every task of the run (harness tasks and spawned goroutines) ended.
//
//go:norace
func allDone() bool {
	for i := 0; i < int(ntasks); i++ {
		if tstate[i] != tsDone && tstate[i] != tsUnused {
			return false
		}
	}
	return true
}

// WaitRunEnd blocks the main goroutine until every task has ended.
//
//go:norace
func WaitRunEnd() {
	for !allDone() {
		runtime.Gosched()
	}
}

// ---- sync.WaitGroup ----

const maxWG = 64

var (
	wgAddr  [maxWG]unsafe.Pointer
	wgCount [maxWG]int64
	wgSync  [maxWG]uint64
	nWG     int32
)

//go:norace
func wgSlot(p unsafe.Pointer) int {
	for i := 0; i < int(nWG); i++ {
		if wgAddr[i] == p {
			return i
		}
	}
	if nWG == maxWG {
		nWG = 0 // recycle (old groups are long finished)
	}
	wgAddr[nWG] = p
	wgCount[nWG] = 0
	nWG++
	return int(nWG - 1)
}

//go:norace
func wgAdd(p unsafe.Pointer, n int) (slot int, zero bool) {
	i := wgSlot(p)
	wgCount[i] += int64(n)
	if wgCount[i] < 0 {
		panic("sync: negative WaitGroup counter")
	}
	return i, wgCount[i] == 0
}

//go:norace
func wgIsZero(i int) bool { return wgCount[i] == 0 }

// WGAdd replaces (*sync.WaitGroup).Add, WGDone Done, WGWait Wait.
func WGAdd(wg *sync.WaitGroup, n int) {
	if GetMode() == ModeOff {
		wg.Add(n)
		return
	}
	p := unsafe.Pointer(wg)
	if n < 0 {
		raceReleaseMerge(unsafe.Pointer(&wgSync[wgSlot(p)]))
	}
	_, zero := wgAdd(p, n)
	if zero && GetMode() == ModeSim {
		wakeOn(p)
	}
}

func WGDone(wg *sync.WaitGroup) { WGAdd(wg, -1) }

func WGWait(wg *sync.WaitGroup) {
	switch GetMode() {
	case ModeOff:
		wg.Wait()
		return
	}
	p := unsafe.Pointer(wg)
	i := wgSlot(p)
	if GetMode() == ModeSolo {
		if !wgIsZero(i) {
			panic(AbortPanic)
		}
		return
	}
	Yield(SeamChan)
	for !wgIsZero(i) {
		parkOn(p)
	}
	raceAcquire(unsafe.Pointer(&wgSync[i]))
}
