// Package simrt is the runtime of the deterministic simulator.
//
// The instrumented copy of the library calls Yield/Lock/Unlock/PoolGet/PoolPut/MapOrder;
// the harness (worker) starts tasks and configures a run.  All scheduler state is
// fixed-size plain memory touched only from //go:norace functions: the Go race detector
// must not see the scheduler's hand-off as synchronisation (DESIGN.md §2.2).
package simrt

import (
	"runtime"
	"sync"
	"sync/atomic"
	"unsafe"
)

const (
	MaxTasks = 32 // harness tasks (at most 16) plus goroutines the library itself starts
	MaxSites = 16384
	TapeCap  = 1 << 18
)

// Modes.
const (
	ModeOff  = 0 // simulator inert: every hook behaves like the real primitive
	ModeSolo = 1 // reference execution on the calling goroutine: no scheduling, pool "fresh", map order ascending
	ModeSim  = 2 // tasks running under the scheduler
)

// Site kinds / flags (filled by the generated sites table).
const (
	KindEntry = 0
	KindLoop  = 1
	KindStmt  = 2
)
const (
	FlagInDeferLit  = 1 // lexically inside a deferred function literal
	FlagDeferTarget = 2 // inside a function that is the target of some defer statement
	FlagGenerated   = 4 // in a generated file
)

// Pseudo sites (seams); real sites are < MaxSites.
const (
	SeamOpBoundary   = MaxSites + 0
	SeamAfterGet     = MaxSites + 1
	SeamBeforePut    = MaxSites + 2
	SeamAfterLock    = MaxSites + 3
	SeamBeforeUnlock = MaxSites + 4
	SeamCallback     = MaxSites + 5
	SeamBeforeLock   = MaxSites + 6
	SeamAfterUnlock  = MaxSites + 7
	SeamMapOrder     = MaxSites + 8
	SeamTaskStart    = MaxSites + 9
	NumSeams         = 11
)

// Strategies.
const (
	StratBoundary = 0 // switch only at operation boundaries
	StratRandom   = 1 // random gaps between preemptions
	StratSeam     = 2 // always switch at one seam class (+ random gaps)
	StratFunc     = 3 // always switch at the sites of one function (+ random gaps)
	StratPCT      = 4 // priorities with d change points
)

// Pool policies.
const (
	PoolLIFO   = 0
	PoolFIFO   = 1
	PoolRandom = 2
	PoolFresh  = 3
	PoolMixed  = 4
)

// Map order policies.
const (
	MapAsc    = 0
	MapDesc   = 1
	MapRotate = 2
	MapRandom = 3
	MapMixed  = 4
)

// Site describes one instrumentation point.
type Site struct {
	File  string
	Line  int
	Func  string
	Kind  uint8
	Flags uint8
}

// Sites is the table registered by the instrumented package's init.
var Sites []Site

var (
	siteFlags [MaxSites]uint8
	siteKind  [MaxSites]uint8
	siteFunc  [MaxSites]uint16 // dense function index
	nSites    int
	nFuncs    int
	// FuncNames maps dense function index to name.
	FuncNames []string
)

// RegisterSites is called from the instrumented package's init function.
func RegisterSites(s []Site) {
	if len(s) > MaxSites {
		panic("simrt: too many sites")
	}
	Sites = s
	nSites = len(s)
	idx := map[string]uint16{}
	for i := range s {
		siteFlags[i] = s[i].Flags
		siteKind[i] = s[i].Kind
		k := s[i].File + ":" + s[i].Func
		v, ok := idx[k]
		if !ok {
			v = uint16(len(FuncNames))
			idx[k] = v
			FuncNames = append(FuncNames, k)
		}
		siteFunc[i] = v
	}
	nFuncs = len(FuncNames)
}

// NumFuncs returns the number of distinct instrumented functions.
func NumFuncs() int { return nFuncs }

// NumSites returns the number of registered sites.
func NumSites() int { return nSites }

// ---------------------------------------------------------------------------
// scheduler state: plain memory, norace access only

const (
	tsUnused   = 0
	tsRunnable = 1
	tsBlocked  = 2
	tsDone     = 3
)

// Abort reasons.
const (
	AbortNone     = 0
	AbortDeadlock = 1
	AbortBudget   = 2
	AbortQuiesce  = 3 // all harness tasks are done, goroutines started by the library are still parked: they are unwound
	AbortSpawn    = 4 // a goroutine started by the library panicked (a real program would have crashed)
)

type abortSentinel struct{}

func (abortSentinel) Error() string { return "simrt: run aborted" }

// AbortPanic is the value raised from hooks once a run is aborted.
var AbortPanic error = abortSentinel{}

// InjectedPanic is the fault raised at a chosen call site inside Parse.
type InjectedPanic struct{ Site uint32 }

func (InjectedPanic) Error() string { return "simrt: injected panic" }

// InjectedPanicString is the non-error panic value used by every other injection: code that
// recovers must cope with panic values that are not errors.
const InjectedPanicString = "simrt: injected panic (not an error value)"

var (
	mode      int32
	turn      int32 // task holding the turn (ModeSim)
	ntasks    int32
	tstate    [MaxTasks]int32
	tblock    [MaxTasks]unsafe.Pointer
	tcondseq  [MaxTasks]uint64 // order in which tasks began to wait on a sync.Cond
	condSeq   uint64
	tsteps    [MaxTasks + 1]int64 // steps in current operation; [MaxTasks] = solo
	tcleanup  [MaxTasks + 1]int32
	tinparse  [MaxTasks + 1]int32
	tinject   [MaxTasks + 1]int64 // countdown of eligible sites until injection (0 = none)
	tinjkind  [MaxTasks + 1]int32 // 0: panic value is an error, 1: a plain string
	tinjfired [MaxTasks + 1]int32
	tprio     [MaxTasks]int32
	tparent   [MaxTasks]int32 // harness task a spawned goroutine descends from (itself for harness tasks)
	nharness  int32           // harness tasks of this run (ids 0..nharness-1); higher ids were spawned by the library

	abort       int32
	abortWho    int32
	opBudget    int64
	steps       int64 // total yields executed in this run
	switches    int64
	digest      uint64
	odigest     uint64
	strategy    int32
	gapMean     int32
	gapLeft     int64
	targetSeam  int32
	targetFunc  int32
	pctChange   [8]int64
	pctN        int32
	pctBase     int64 // value of steps when the concurrent phase began
	poolPolicy  int32
	mapPolicy   int32
	poolDropPct int32

	// statistics (per run unless noted)
	statBlocked     int64 // times a task parked on a mutex
	statHandover    int64 // pool object put by task i handed to task j != i
	statPoolGet     int64
	statPoolFresh   int64
	statPoolReuse   int64
	statPoolDrop    int64
	statNestedGet   int64 // Get while the task already holds >= 1 object of that pool
	statMapNonAsc   int64
	statMapCalls    int64
	statInjected    int64
	statInjectedGen int64 // injected inside a generated-file function (Execute)
	statSeamHit     [NumSeams]int64
	tpoolHeld       [MaxTasks + 1]int32
	switchSig       uint64          // signature over (site, from, to) of context switches only
	tlabel          [MaxTasks]int32 // what kind of operation each task is in (harness-defined, < 8)
	overlap         [8][8]int64     // context switches by (label of the task left, label of the task entered)
)

// SetLabel tells the simulator what kind of operation the calling task is executing.
//
//go:norace
func SetLabel(l int) {
	if mode == ModeSim {
		tlabel[turn] = int32(l & 7)
	}
}

// rng / tape
var (
	rngState  uint64
	tape      [TapeCap]uint32
	tapeBound [TapeCap]uint32
	tapeLen   int32
	tapeOver  int32
	replay    int32
	rtape     [TapeCap]uint32
	rtapeLen  int32
	rpos      int32
)

//go:norace
func mix(v uint64) {
	digest ^= v
	digest *= 1099511628211
}

// Mix folds a harness-level value (an outcome hash) into the run's event digest and into its
// outcome digest.  The outcome digest holds outcomes only and is commutative: it must not
// depend on how the run was scheduled (in which order the tasks' operations completed) or on
// which internal paths the library took.
//
//go:norace
func Mix(v uint64) {
	mix(v)
	x := v + 0x9E3779B97F4A7C15
	x = (x ^ (x >> 30)) * 0xBF58476D1CE4E5B9
	x = (x ^ (x >> 27)) * 0x94D049BB133111EB
	odigest += x ^ (x >> 31)
}

//go:norace
func next64() uint64 {
	x := rngState
	x ^= x << 13
	x ^= x >> 7
	x ^= x << 17
	rngState = x
	return x * 2685821657736338717
}

// Draw returns a value in [0,n).  Every choice of a run goes through here; the sequence is
// recorded on the tape, and in replay mode read back from it (exhausted tape yields 0).
//
//go:norace
func Draw(n int) int {
	if n <= 1 {
		return 0
	}
	var v uint32
	if replay != 0 {
		if rpos < rtapeLen {
			v = rtape[rpos] % uint32(n)
		}
		rpos++
	} else {
		v = uint32(next64()>>33) % uint32(n)
	}
	if tapeLen < TapeCap {
		tape[tapeLen] = v
		tapeBound[tapeLen] = uint32(n)
		tapeLen++
	} else {
		tapeOver = 1
	}
	return int(v)
}

// Seed starts a new tape from a PRNG seed.
//
//go:norace
func Seed(s uint64) {
	if s == 0 {
		s = 0x9E3779B97F4A7C15
	}
	rngState = s
	// warm up
	next64()
	next64()
	tapeLen = 0
	tapeOver = 0
	replay = 0
	rpos = 0
}

// SetReplay starts a new tape that reads back the given values.
//
//go:norace
func SetReplay(vals []uint32) {
	n := len(vals)
	if n > TapeCap {
		n = TapeCap
	}
	for i := 0; i < n; i++ {
		rtape[i] = vals[i]
	}
	rtapeLen = int32(n)
	rpos = 0
	replay = 1
	tapeLen = 0
	tapeOver = 0
}

// Tape returns a copy of the recorded tape (values and bounds) and whether it overflowed.
func Tape() (vals []uint32, bounds []uint32, overflow bool) {
	n := int(tapeLenNow())
	vals = make([]uint32, n)
	bounds = make([]uint32, n)
	for i := 0; i < n; i++ {
		vals[i], bounds[i] = tapeAt(i)
	}
	return vals, bounds, tapeOverNow()
}

//go:norace
func tapeLenNow() int32 { return tapeLen }

//go:norace
func tapeOverNow() bool { return tapeOver != 0 }

//go:norace
func tapeAt(i int) (uint32, uint32) { return tape[i], tapeBound[i] }

// RunConfig configures one simulated run.
type RunConfig struct {
	Tasks      int
	Strategy   int
	GapMean    int
	TargetSeam int
	TargetFunc int
	PCTDepth   int
	PCTSteps   int64
	PoolPolicy int
	MapPolicy  int
	PoolDrop   int // percent of Puts that drop the object
	OpBudget   int64
}

// Stats is what a run measured.
type Stats struct {
	Steps, Switches                               int64
	Digest, SwitchSig, ODigest                    uint64
	Blocked, Handover, PoolGet, PoolFresh         int64
	PoolReuse, PoolDrop, NestedGet                int64
	MapNonAsc, MapCalls, Injected, InjectedInExec int64
	Abort, AbortWho                               int
	SeamHit                                       [NumSeams]int64
	Overlap                                       [8][8]int64
}

// SetMode switches between ModeOff and ModeSolo (ModeSim is entered by BeginRun).
//
//go:norace
func SetMode(m int) { mode = int32(m) }

// GetMode returns the current mode.
//
//go:norace
func GetMode() int { return int(mode) }

// ResetRunStats clears the per-run counters and digest (called once per run, before the
// plan is drawn, so that solo reference executions are counted too).
//
//go:norace
func ResetRunStats() {
	steps, switches, digest, switchSig = 0, 0, 14695981039346656037, 0
	odigest = 14695981039346656037
	statBlocked, statHandover, statPoolGet, statPoolFresh = 0, 0, 0, 0
	statPoolReuse, statPoolDrop, statNestedGet = 0, 0, 0
	statMapNonAsc, statMapCalls, statInjected, statInjectedGen = 0, 0, 0, 0
	for i := 0; i < NumSeams; i++ {
		statSeamHit[i] = 0
	}
	abort, abortWho = 0, 0
	for i := 0; i < 8; i++ {
		for j := 0; j < 8; j++ {
			overlap[i][j] = 0
		}
	}
	for i := 0; i < MaxTasks; i++ {
		tlabel[i] = 0
	}
	for i := 0; i <= MaxTasks; i++ {
		tsteps[i], tcleanup[i], tinparse[i], tinject[i], tpoolHeld[i] = 0, 0, 0, 0, 0
	}
	opBudget = 30000000
	// every run starts with empty simulated pools ("a GC happened"): a run's behaviour must
	// not depend on which runs the same process executed before
	ClearPools()
}

// BeginRun enters ModeSim; tasks started afterwards wait for their turn.
//
//go:norace
func BeginRun(c RunConfig) {
	ntasks = int32(c.Tasks)
	nharness = int32(c.Tasks)
	for i := 0; i < MaxTasks; i++ {
		tstate[i] = tsUnused
		tblock[i] = nil
		tprio[i] = 0
		tparent[i] = int32(i)
	}
	for i := 0; i < c.Tasks; i++ {
		tstate[i] = tsRunnable
	}
	strategy = int32(c.Strategy)
	gapMean = int32(c.GapMean)
	targetSeam = int32(c.TargetSeam)
	targetFunc = int32(c.TargetFunc)
	poolPolicy = int32(c.PoolPolicy)
	mapPolicy = int32(c.MapPolicy)
	poolDropPct = int32(c.PoolDrop)
	if c.OpBudget > 0 {
		opBudget = c.OpBudget
	}
	gapLeft = 0
	pctN = 0
	pctBase = steps
	if strategy == StratPCT {
		// random distinct priorities (higher runs first), d-1 change points
		for i := 0; i < c.Tasks; i++ {
			tprio[i] = int32(1000 + Draw(1000)*16 + i)
		}
		d := c.PCTDepth
		if d > 8 {
			d = 8
		}
		for i := 0; i < d-1; i++ {
			n := c.PCTSteps
			if n < 2 {
				n = 2
			}
			pctChange[i] = int64(Draw(int(n)))
		}
		pctN = int32(d - 1)
	} else if strategy != StratBoundary {
		drawGap()
	}
	// first task to run
	turn = int32(pickAny(-1))
	mode = ModeSim
}

// EndRun leaves ModeSim and returns the run's statistics.
//
//go:norace
func EndRun() Stats {
	mode = ModeOff
	return snapshot()
}

// Snapshot returns the statistics so far.
//
//go:norace
func Snapshot() Stats { return snapshot() }

//go:norace
func snapshot() Stats {
	var s Stats
	s.Steps, s.Switches, s.Digest, s.SwitchSig = steps, switches, digest, switchSig
	s.ODigest = odigest
	s.Blocked, s.Handover, s.PoolGet, s.PoolFresh = statBlocked, statHandover, statPoolGet, statPoolFresh
	s.PoolReuse, s.PoolDrop, s.NestedGet = statPoolReuse, statPoolDrop, statNestedGet
	s.MapNonAsc, s.MapCalls, s.Injected, s.InjectedInExec = statMapNonAsc, statMapCalls, statInjected, statInjectedGen
	s.Abort, s.AbortWho = int(abort), int(abortWho)
	for i := 0; i < NumSeams; i++ {
		s.SeamHit[i] = statSeamHit[i]
	}
	for i := 0; i < 8; i++ {
		for j := 0; j < 8; j++ {
			s.Overlap[i][j] = overlap[i][j]
		}
	}
	return s
}

//go:norace
func drawGap() {
	m := int(gapMean)
	if m < 1 {
		m = 1
	}
	g := Draw(2*m + 1)
	if g == 0 {
		gapLeft = 1 << 62 // never again (also what an exhausted replay tape gives)
	} else {
		gapLeft = int64(g)
	}
}

// pickAny chooses a runnable task other than `not` (or any if not<0 / none other); -1 if none.
//
//go:norace
func pickAny(not int) int {
	n := 0
	for i := 0; i < int(ntasks); i++ {
		if tstate[i] == tsRunnable && i != not {
			n++
		}
	}
	if n == 0 {
		if not >= 0 && tstate[not] == tsRunnable {
			return not
		}
		return -1
	}
	if strategy == StratPCT {
		best, bp := -1, int32(-1<<30)
		for i := 0; i < int(ntasks); i++ {
			if tstate[i] == tsRunnable && i != not && tprio[i] > bp {
				best, bp = i, tprio[i]
			}
		}
		return best
	}
	k := Draw(n)
	for i := 0; i < int(ntasks); i++ {
		if tstate[i] == tsRunnable && i != not {
			if k == 0 {
				return i
			}
			k--
		}
	}
	return -1
}

//go:norace
func waitTurn(me int) {
	for turn != int32(me) {
		runtime.Gosched()
	}
	if abort != 0 {
		panic(AbortPanic)
	}
}

//go:norace
func handTo(site uint32, me, to int) {
	if to == me {
		return
	}
	switches++
	overlap[tlabel[me]][tlabel[to]]++
	trace(EvSwitch, me, to, int(site))
	v := uint64(site)<<16 | uint64(me)<<8 | uint64(to)
	mix(v)
	switchSig ^= v + 0x9E3779B97F4A7C15 + (switchSig << 6) + (switchSig >> 2)
	turn = int32(to)
	waitTurn(me)
}

//go:norace
func doAbort(reason int, who int) {
	if abort == 0 {
		abort = int32(reason)
		abortWho = int32(who)
	}
}

// Yield is the instrumentation point inserted into the library copy.
//
//go:norace
func Yield(site uint32) {
	m := mode
	if m == ModeOff {
		return
	}
	if m == ModeSolo {
		soloStep(site)
		return
	}
	me := int(turn)
	if abort != 0 {
		panic(AbortPanic)
	}
	steps++
	tsteps[me]++
	if tsteps[me] > opBudget {
		doAbort(AbortBudget, me)
		panic(AbortPanic)
	}
	if site < MaxSites {
		fl := siteFlags[site]
		if fl&FlagInDeferLit != 0 {
			tcleanup[me] = 1
		}
		if tinject[me] > 0 && tinparse[me] != 0 && tcleanup[me] == 0 &&
			siteKind[site] == KindEntry && fl&(FlagInDeferLit|FlagDeferTarget) == 0 {
			tinject[me]--
			if tinject[me] == 0 {
				statInjected++
				if fl&FlagGenerated != 0 {
					statInjectedGen++
				}
				mix(uint64(site) | 1<<40)
				trace(EvInject, me, 0, int(site))
				tinjfired[me] = 1
				if tinjkind[me] != 0 {
					panic(InjectedPanicString)
				}
				panic(InjectedPanic{Site: site})
			}
		}
	} else {
		statSeamHit[site-MaxSites]++
	}
	if ntasks <= 1 {
		return
	}
	sw := false
	switch strategy {
	case StratBoundary:
		sw = site == SeamOpBoundary
	case StratPCT:
		for i := 0; i < int(pctN); i++ {
			if pctChange[i] == steps-pctBase {
				// demote the running task below everybody
				tprio[me] = int32(i)
			}
		}
		to := pickAny(-1)
		if to >= 0 && to != me {
			handTo(site, me, to)
		}
		return
	default:
		if strategy == StratSeam && site >= MaxSites && int32(site-MaxSites) == targetSeam {
			sw = true
		} else if strategy == StratFunc && site < MaxSites && int32(siteFunc[site]) == targetFunc {
			sw = true
		}
		gapLeft--
		if gapLeft <= 0 {
			sw = true
			drawGap()
		}
	}
	if sw {
		to := pickAny(me)
		if to >= 0 {
			handTo(site, me, to)
		}
	}
}

//go:norace
func soloStep(site uint32) {
	steps++
	tsteps[MaxTasks]++
	if tsteps[MaxTasks] > opBudget {
		panic(AbortPanic)
	}
}

// ---------------------------------------------------------------------------
// task life cycle (called by the harness)

// TaskEnter is the first thing a task goroutine does: wait for the first turn.
//
//go:norace
func TaskEnter(id int) {
	waitTurn(id)
}

// TaskDone marks the calling task finished and passes the turn on.
//
//go:norace
func TaskDone(id int) {
	tstate[id] = tsDone
	to := -1
	if abort != 0 {
		// wake anybody not yet done so that they unwind
		for i := 0; i < int(ntasks); i++ {
			if tstate[i] != tsDone && tstate[i] != tsUnused {
				to = i
				break
			}
		}
	} else {
		to = pickAny(-1)
		if to < 0 {
			// nobody runnable: either all done, or the rest is blocked for ever
			for i := 0; i < int(ntasks); i++ {
				if tstate[i] == tsBlocked {
					if i < int(nharness) {
						doAbort(AbortDeadlock, i)
					} else if abort == 0 {
						// only goroutines the library started are left, parked: the harness
						// callers are done, so this is quiescence, not a deadlock of a caller
						doAbort(AbortQuiesce, i)
					}
					to = i
					break
				}
			}
			if abort == AbortQuiesce {
				for i := 0; i < int(nharness); i++ {
					if tstate[i] == tsBlocked {
						abort = AbortDeadlock
						abortWho = int32(i)
					}
				}
			}
		}
	}
	if to >= 0 {
		switches++
		trace(EvDone, id, to, 0)
		mix(uint64(0xD0)<<32 | uint64(id)<<8 | uint64(to))
		turn = int32(to)
	} else {
		turn = -1
	}
}

// Cur returns the id of the task holding the turn, or -1 outside ModeSim.
//
//go:norace
func Cur() int {
	if mode != ModeSim {
		return -1
	}
	return int(turn)
}

// CurRoot returns the harness task the running goroutine descends from (-1 outside ModeSim).
//
//go:norace
func CurRoot() int {
	if mode != ModeSim {
		return -1
	}
	return int(tparent[turn])
}

// Aborted reports whether the current run was aborted and why.
//
//go:norace
func Aborted() int { return int(abort) }

// SetOpBudget changes the per-operation step budget (until the next BeginRun) and returns the
// old one.
//
//go:norace
func SetOpBudget(n int64) int64 {
	old := opBudget
	opBudget = n
	return old
}

// OpBudget returns the per-operation step budget in force.
//
//go:norace
func OpBudget() int64 { return opBudget }

// SoloSteps returns the steps of the reference execution's current operation.
//
//go:norace
func SoloSteps() int64 { return tsteps[MaxTasks] }

// OpStart resets the per-operation step budget and fault state of the calling context.
//
//go:norace
func OpStart() {
	i := slot()
	tsteps[i] = 0
	tcleanup[i] = 0
	tinparse[i] = 0
	tinject[i] = 0
}

// OpBoundary is called by a task between operations.
//
//go:norace
func OpBoundary() {
	if mode == ModeSim {
		Yield(SeamOpBoundary)
	}
}

// CallbackSeam is called by harness callbacks (user functions) on entry.
//
//go:norace
func CallbackSeam() {
	if mode == ModeSim {
		Yield(SeamCallback)
	}
}

// EnterParse / LeaveParse bracket a Parse call for fault eligibility; inject > 0 arms an
// injected panic at the inject-th eligible function entry.
//
//go:norace
func EnterParse(inject int) {
	i := slot()
	tinparse[i] = 1
	tcleanup[i] = 0
	tinject[i] = int64(inject)
	tinjkind[i] = int32(inject & 1)
	tinjfired[i] = 0
}

// InjectionFired reports whether the panic armed by the last EnterParse was raised.
//
//go:norace
func InjectionFired() bool { return tinjfired[slot()] != 0 }

//go:norace
func LeaveParse() {
	i := slot()
	tinparse[i] = 0
	tinject[i] = 0
}

// OpSteps returns the steps consumed by the current operation of the calling context.
//
//go:norace
func OpSteps() int64 { return tsteps[slot()] }

//go:norace
func slot() int {
	if mode == ModeSim {
		return int(turn)
	}
	return MaxTasks
}

// ---------------------------------------------------------------------------
// mutex seam

//go:norace
func wakeWaiters(p unsafe.Pointer) {
	for i := 0; i < int(ntasks); i++ {
		if tstate[i] == tsBlocked && tblock[i] == p {
			tstate[i] = tsRunnable
			tblock[i] = nil
		}
	}
}

//go:norace
func park(p unsafe.Pointer) {
	me := int(turn)
	statBlocked++
	trace(EvBlock, me, 0, 0)
	tstate[me] = tsBlocked
	tblock[me] = p
	to := pickAny(me)
	if to < 0 {
		doAbort(AbortDeadlock, me)
		tstate[me] = tsRunnable
		tblock[me] = nil
		panic(AbortPanic)
	}
	handTo(SeamBeforeLock, me, to)
	// woken: state was set to runnable by the unlocker (or abort raised in waitTurn)
}

// Lock replaces (*sync.Mutex).Lock.
//
//go:norace
func Lock(m *sync.Mutex) {
	switch mode {
	case ModeOff:
		m.Lock()
		return
	case ModeSolo:
		if !m.TryLock() {
			panic(AbortPanic)
		}
		return
	}
	Yield(SeamBeforeLock)
	for !m.TryLock() {
		park(unsafe.Pointer(m))
	}
	Yield(SeamAfterLock)
}

// TryLock replaces (*sync.Mutex).TryLock: never blocks; the attempt is a lock seam.
//
//go:norace
func TryLock(m *sync.Mutex) bool {
	if mode != ModeSim {
		return m.TryLock()
	}
	Yield(SeamBeforeLock)
	ok := m.TryLock()
	if ok {
		Yield(SeamAfterLock)
	}
	return ok
}

// RWTryLock / TryRLock replace the sync.RWMutex try methods.
//
//go:norace
func RWTryLock(m *sync.RWMutex) bool {
	if mode != ModeSim {
		return m.TryLock()
	}
	Yield(SeamBeforeLock)
	ok := m.TryLock()
	if ok {
		Yield(SeamAfterLock)
	}
	return ok
}

//go:norace
func TryRLock(m *sync.RWMutex) bool {
	if mode != ModeSim {
		return m.TryRLock()
	}
	Yield(SeamBeforeLock)
	ok := m.TryRLock()
	if ok {
		Yield(SeamAfterLock)
	}
	return ok
}

// CondWait replaces (*sync.Cond).Wait.  The caller holds c.L.  Releasing c.L and joining the
// waiters of c is one step (no yield in between), as in the real Cond; the lock is taken again
// through the ordinary lock seam after a Signal or Broadcast chose this task.
//
//go:norace
func CondWait(c *sync.Cond) {
	switch mode {
	case ModeOff:
		c.Wait()
		return
	case ModeSolo:
		panic(AbortPanic) // a reference execution has nobody who could signal
	}
	me := int(turn)
	condSeq++
	tcondseq[me] = condSeq
	switch l := c.L.(type) {
	case *sync.Mutex:
		l.Unlock()
		wakeWaiters(unsafe.Pointer(l))
		park(unsafe.Pointer(c))
		Lock(l)
	case *sync.RWMutex:
		l.Unlock()
		wakeWaiters(unsafe.Pointer(l))
		park(unsafe.Pointer(c))
		RWLock(l)
	default:
		panic("simrt: sync.Cond with a Locker that is neither *sync.Mutex nor *sync.RWMutex")
	}
}

// CondSignal replaces (*sync.Cond).Signal: the task that has waited longest is made runnable.
//
//go:norace
func CondSignal(c *sync.Cond) {
	if mode != ModeSim {
		c.Signal()
		return
	}
	if abort == 0 {
		Yield(SeamBeforeUnlock)
	}
	best := -1
	for i := 0; i < int(ntasks); i++ {
		if tstate[i] == tsBlocked && tblock[i] == unsafe.Pointer(c) && (best < 0 || tcondseq[i] < tcondseq[best]) {
			best = i
		}
	}
	if best >= 0 {
		tstate[best] = tsRunnable
		tblock[best] = nil
	}
	if abort == 0 {
		Yield(SeamAfterUnlock)
	}
}

// CondBroadcast replaces (*sync.Cond).Broadcast.
//
//go:norace
func CondBroadcast(c *sync.Cond) {
	if mode != ModeSim {
		c.Broadcast()
		return
	}
	if abort == 0 {
		Yield(SeamBeforeUnlock)
	}
	wakeWaiters(unsafe.Pointer(c))
	if abort == 0 {
		Yield(SeamAfterUnlock)
	}
}

// Unlock replaces (*sync.Mutex).Unlock.
//
//go:norace
func Unlock(m *sync.Mutex) {
	if mode != ModeSim {
		m.Unlock()
		return
	}
	me := int(turn)
	tcleanup[me] = 1
	if abort == 0 {
		Yield(SeamBeforeUnlock)
	}
	m.Unlock()
	wakeWaiters(unsafe.Pointer(m))
	if abort == 0 {
		Yield(SeamAfterUnlock)
	}
}

// RWLock / RWUnlock / RLock / RUnlock replace the sync.RWMutex methods.
//
//go:norace
func RWLock(m *sync.RWMutex) {
	switch mode {
	case ModeOff:
		m.Lock()
		return
	case ModeSolo:
		if !m.TryLock() {
			panic(AbortPanic)
		}
		return
	}
	Yield(SeamBeforeLock)
	for !m.TryLock() {
		park(unsafe.Pointer(m))
	}
	Yield(SeamAfterLock)
}

//go:norace
func RWUnlock(m *sync.RWMutex) {
	if mode != ModeSim {
		m.Unlock()
		return
	}
	me := int(turn)
	tcleanup[me] = 1
	if abort == 0 {
		Yield(SeamBeforeUnlock)
	}
	m.Unlock()
	wakeWaiters(unsafe.Pointer(m))
	if abort == 0 {
		Yield(SeamAfterUnlock)
	}
}

//go:norace
func RLock(m *sync.RWMutex) {
	switch mode {
	case ModeOff:
		m.RLock()
		return
	case ModeSolo:
		if !m.TryRLock() {
			panic(AbortPanic)
		}
		return
	}
	Yield(SeamBeforeLock)
	for !m.TryRLock() {
		park(unsafe.Pointer(m))
	}
	Yield(SeamAfterLock)
}

//go:norace
func RUnlock(m *sync.RWMutex) {
	if mode != ModeSim {
		m.RUnlock()
		return
	}
	me := int(turn)
	tcleanup[me] = 1
	if abort == 0 {
		Yield(SeamBeforeUnlock)
	}
	m.RUnlock()
	wakeWaiters(unsafe.Pointer(m))
	if abort == 0 {
		Yield(SeamAfterUnlock)
	}
}

// ---------------------------------------------------------------------------
// sync.Once seam

const maxOnce = 64

// sync.Once seam.  "Done" lives where the real Once keeps it - its first word, an
// atomic.Uint32 in every Go release so far (checked by init below) - so that a Once completed
// by uninstrumented means (ModeOff: the real Do) and one completed under the simulator agree,
// values allocated per call need no table entry once they are done, and nothing leaks.  Only
// the Once values whose function is RUNNING are kept in a small table, so that a second task
// arriving meanwhile parks instead of blocking for real on the Once's internal mutex.
var (
	onceAddr [maxOnce]unsafe.Pointer // running
	onceOK   bool
)

func init() {
	var o sync.Once
	before := *(*uint32)(unsafe.Pointer(&o))
	o.Do(func() {})
	onceOK = before == 0 && *(*uint32)(unsafe.Pointer(&o)) == 1
}

//go:norace
func onceDone(o *sync.Once) bool { return atomic.LoadUint32((*uint32)(unsafe.Pointer(o))) == 1 }

//go:norace
func onceBegin(o *sync.Once) (slot int, run bool) {
	p := unsafe.Pointer(o)
	for {
		if onceDone(o) {
			raceAcquire(p)
			return -1, false
		}
		free, running := -1, false
		for i := range onceAddr {
			if onceAddr[i] == p {
				running = true
				break
			}
			if onceAddr[i] == nil && free < 0 {
				free = i
			}
		}
		if !running {
			if free < 0 {
				panic("simrt: too many sync.Once functions running at the same time")
			}
			onceAddr[free] = p
			return free, true
		}
		if mode != ModeSim {
			panic(AbortPanic)
		}
		park(p)
	}
}

//go:norace
func onceEnd(i int, o *sync.Once) {
	p := unsafe.Pointer(o)
	raceReleaseMerge(p)
	atomic.StoreUint32((*uint32)(p), 1) // also after a panic of f, like the real Once
	onceAddr[i] = nil
	if mode == ModeSim {
		wakeWaiters(p)
	}
}

// OnceDo replaces (*sync.Once).Do.
func OnceDo(o *sync.Once, f func()) {
	if mode == ModeOff || !onceOK {
		o.Do(f)
		return
	}
	i, run := onceBegin(o)
	if !run {
		return
	}
	defer onceEnd(i, o)
	f()
}

// SetMapPolicy / SetPoolPolicy let a single-task run change the policy between operations.
//
//go:norace
func SetMapPolicy(p int) { mapPolicy = int32(p) }

//go:norace
func SetPoolPolicy(p int) { poolPolicy = int32(p) }
