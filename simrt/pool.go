package simrt

import (
	"reflect"
	"sort"
	"sync"
	"unsafe"
)

const (
	maxPools  = 8
	poolCap   = 64
	syncWords = 4096
)

type poolState struct {
	p     *sync.Pool
	n     int32
	items [poolCap]interface{}
	owner [poolCap]int8
	sidx  [poolCap]int32
}

var (
	pools     [maxPools]poolState
	npools    int32
	syncWord  [syncWords]uint64
	syncNext  int32
	poolOwner int8
)

//go:norace
func findPool(p *sync.Pool) *poolState {
	for i := 0; i < int(npools); i++ {
		if pools[i].p == p {
			return &pools[i]
		}
	}
	if npools == maxPools {
		panic("simrt: too many pools")
	}
	pools[npools].p = p
	npools++
	return &pools[npools-1]
}

// ClearPools empties every simulated pool ("a GC happened").
//
//go:norace
func ClearPools() {
	for i := 0; i < int(npools); i++ {
		ps := &pools[i]
		for j := 0; j < int(ps.n); j++ {
			ps.items[j] = nil
		}
		ps.n = 0
	}
}

//go:norace
func poolTake(ps *poolState, k int) (interface{}, int8, int32) {
	x, o, s := ps.items[k], ps.owner[k], ps.sidx[k]
	for j := k; j < int(ps.n)-1; j++ {
		ps.items[j] = ps.items[j+1]
		ps.owner[j] = ps.owner[j+1]
		ps.sidx[j] = ps.sidx[j+1]
	}
	ps.n--
	ps.items[ps.n] = nil
	return x, o, s
}

// poolGetSim returns (object, true) when a recycled object is handed out.
//
//go:norace
func poolGetSim(p *sync.Pool) (interface{}, bool) {
	me := int(turn)
	ps := findPool(p)
	statPoolGet++
	if tpoolHeld[me] > 0 {
		statNestedGet++
	}
	tpoolHeld[me]++
	pol := poolPolicy
	if pol == PoolMixed {
		pol = int32(Draw(4))
	}
	if ps.n == 0 || pol == PoolFresh {
		statPoolFresh++
		trace(EvPoolFresh, me, 0, 0)
		mix(0xF0)
		return nil, false
	}
	k := 0
	switch pol {
	case PoolLIFO:
		k = int(ps.n) - 1
	case PoolFIFO:
		k = 0
	case PoolRandom:
		k = Draw(int(ps.n))
	}
	x, o, s := poolTake(ps, k)
	statPoolReuse++
	trace(EvPoolReuse, me, k, int(o))
	if int(o) != me {
		statHandover++
	}
	mix(uint64(0xF1)<<32 | uint64(k)<<8 | uint64(uint8(o)))
	raceAcquire(unsafe.Pointer(&syncWord[s]))
	return x, true
}

//go:norace
func poolPutSim(p *sync.Pool, x interface{}) {
	me := int(turn)
	ps := findPool(p)
	if tpoolHeld[me] > 0 {
		tpoolHeld[me]--
	}
	if poolDropPct > 0 && Draw(100) < int(poolDropPct) {
		statPoolDrop++
		trace(EvPoolDrop, me, 0, 0)
		return
	}
	if ps.n == poolCap {
		statPoolDrop++
		return
	}
	s := syncNext
	syncNext = (syncNext + 1) % syncWords
	raceReleaseMerge(unsafe.Pointer(&syncWord[s]))
	ps.items[ps.n] = x
	ps.owner[ps.n] = int8(me)
	ps.sidx[ps.n] = s
	ps.n++
}

// PoolGet replaces (*sync.Pool).Get.
func PoolGet(p *sync.Pool) interface{} {
	switch GetMode() {
	case ModeOff:
		return p.Get()
	case ModeSolo:
		if p.New != nil {
			return p.New()
		}
		return nil
	}
	x, ok := poolGetSim(p)
	if !ok {
		if p.New != nil {
			x = p.New()
		}
	}
	Yield(SeamAfterGet)
	return x
}

// PoolPut replaces (*sync.Pool).Put.
func PoolPut(p *sync.Pool, x interface{}) {
	switch GetMode() {
	case ModeOff:
		p.Put(x)
		return
	case ModeSolo:
		return
	}
	if Aborted() == 0 {
		Yield(SeamBeforePut)
	}
	if x == nil {
		return
	}
	poolPutSim(p, x)
}

// MapOrder returns the keys of map m in the order the run's policy dictates.
// Go promises nothing about map iteration order, so every order is legal.
func MapOrder(m interface{}) []interface{} {
	v := reflect.ValueOf(m)
	keys := v.MapKeys()
	n := len(keys)
	out := make([]interface{}, n)
	if n == 0 {
		return out
	}
	if v.Type().Key().Kind() == reflect.String {
		ss := make([]string, n)
		for i, k := range keys {
			ss[i] = k.String()
		}
		sort.Strings(ss)
		kt := v.Type().Key()
		if kt == reflect.TypeOf("") {
			for i, s := range ss {
				out[i] = s
			}
		} else {
			for i, s := range ss {
				out[i] = reflect.ValueOf(s).Convert(kt).Interface()
			}
		}
	} else {
		sort.Slice(keys, func(i, j int) bool { return lessValue(keys[i], keys[j]) })
		for i, k := range keys {
			out[i] = k.Interface()
		}
	}
	if GetMode() != ModeSim || n < 2 {
		return out
	}
	permute(out)
	return out
}

//go:norace
func mapPol() int {
	statMapCalls++
	pol := int(mapPolicy)
	if pol == MapMixed {
		pol = Draw(4)
	}
	if pol != MapAsc {
		statMapNonAsc++
	}
	return pol
}

func permute(out []interface{}) {
	n := len(out)
	switch mapPol() {
	case MapAsc:
	case MapDesc:
		for i, j := 0, n-1; i < j; i, j = i+1, j-1 {
			out[i], out[j] = out[j], out[i]
		}
	case MapRotate:
		r := 1 + Draw(n-1)
		tmp := make([]interface{}, n)
		for i := range out {
			tmp[i] = out[(i+r)%n]
		}
		copy(out, tmp)
	case MapRandom:
		asc := true
		for i := n - 1; i > 0; i-- {
			j := Draw(i + 1)
			out[i], out[j] = out[j], out[i]
			if j != i {
				asc = false
			}
		}
		if asc {
			out[0], out[n-1] = out[n-1], out[0]
		}
	}
}

func lessValue(a, b reflect.Value) bool {
	switch a.Kind() {
	case reflect.Int, reflect.Int8, reflect.Int16, reflect.Int32, reflect.Int64:
		return a.Int() < b.Int()
	case reflect.Uint, reflect.Uint8, reflect.Uint16, reflect.Uint32, reflect.Uint64, reflect.Uintptr:
		return a.Uint() < b.Uint()
	case reflect.Float32, reflect.Float64:
		return a.Float() < b.Float()
	case reflect.Bool:
		return !a.Bool() && b.Bool()
	}
	return false
}
