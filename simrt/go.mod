module verif/simrt

go 1.23
