package simrt

import (
	"reflect"
	"unsafe"
)

// Channel seam.  The real channel still does the operation (so the race detector sees the
// real happens-before edges); the simulator only decides who waits and who is woken, which
// lets it report "everybody is blocked" as a deadlock instead of hanging.

const SeamChan = MaxSites + 10

func chanPtr(rv reflect.Value) unsafe.Pointer { return unsafe.Pointer(rv.Pointer()) }

func chanValue(rv reflect.Value, v interface{}) reflect.Value {
	et := rv.Type().Elem()
	if v == nil {
		return reflect.Zero(et)
	}
	val := reflect.ValueOf(v)
	if val.Type() != et && val.Type().ConvertibleTo(et) && et.Kind() != reflect.Interface {
		val = val.Convert(et)
	}
	return val
}

// ChanSend replaces `ch <- v`.
func ChanSend(ch interface{}, v interface{}) {
	rv := reflect.ValueOf(ch)
	val := chanValue(rv, v)
	switch GetMode() {
	case ModeOff:
		rv.Send(val)
		return
	case ModeSolo:
		if !rv.TrySend(val) {
			panic(AbortPanic)
		}
		return
	}
	Yield(SeamChan)
	for !rv.TrySend(val) {
		parkOn(chanPtr(rv))
	}
	wakeOn(chanPtr(rv))
}

// ChanRecv2 replaces `v, ok := <-ch`; the value comes back as an interface.
func ChanRecv2(ch interface{}) (interface{}, bool) {
	rv := reflect.ValueOf(ch)
	switch GetMode() {
	case ModeOff:
		x, ok := rv.Recv()
		return x.Interface(), ok
	case ModeSolo:
		x, ok := rv.TryRecv()
		if !x.IsValid() {
			panic(AbortPanic)
		}
		return x.Interface(), ok
	}
	Yield(SeamChan)
	for {
		x, ok := rv.TryRecv()
		if x.IsValid() {
			wakeOn(chanPtr(rv))
			return x.Interface(), ok
		}
		parkOn(chanPtr(rv))
	}
}

// ChanRecv replaces a receive whose value is not used.
func ChanRecv(ch interface{}) { ChanRecv2(ch) }

// ChanClose replaces close(ch).
func ChanClose(ch interface{}) {
	rv := reflect.ValueOf(ch)
	rv.Close()
	if GetMode() == ModeSim {
		wakeOn(chanPtr(rv))
	}
}

//go:norace
func parkOn(p unsafe.Pointer) { park(p) }

//go:norace
func wakeOn(p unsafe.Pointer) { wakeWaiters(p) }

// WakeAll makes every blocked task runnable again (each retries its operation and parks again
// if it still cannot proceed).  Called after channel operations the simulator did not perform
// itself (the cases of a non-blocking select).
//
//go:norace
func WakeAll() {
	if mode != ModeSim {
		return
	}
	for i := 0; i < int(ntasks); i++ {
		if tstate[i] == tsBlocked {
			tstate[i] = tsRunnable
			tblock[i] = nil
		}
	}
}
