//go:build race

package simrt

import (
	"runtime"
	"unsafe"
)

// RaceEnabled reports whether the binary was built with the race detector.
const RaceEnabled = true

//go:norace
func raceAcquire(p unsafe.Pointer) { runtime.RaceAcquire(p) }

//go:norace
func raceReleaseMerge(p unsafe.Pointer) { runtime.RaceReleaseMerge(p) }
