//go:build !race

package simrt

import "unsafe"

// RaceEnabled reports whether the binary was built with the race detector.
const RaceEnabled = false

func raceAcquire(p unsafe.Pointer)      {}
func raceReleaseMerge(p unsafe.Pointer) {}
