package simrt

import "fmt"

// Event trace (fixed-size, plain memory): the schedule and fault decisions of one run written
// out for replay files and for debugging the simulator itself.

const traceCap = 1 << 15

const (
	EvSwitch = iota + 1
	EvPoolFresh
	EvPoolReuse
	EvPoolDrop
	EvMapOrder
	EvInject
	EvBlock
	EvDone
	EvDraw
)

type traceEv struct {
	kind    uint8
	a, b, c int32
	step    int64
}

var (
	traceOn   int32
	traceBuf  [traceCap]traceEv
	traceN    int32
	traceLost int32
)

// TraceEnable switches event recording on or off and clears the buffer.
//
//go:norace
func TraceEnable(on bool) {
	traceN, traceLost = 0, 0
	if on {
		traceOn = 1
	} else {
		traceOn = 0
	}
}

//go:norace
func trace(kind uint8, a, b, c int) {
	if traceOn == 0 {
		return
	}
	if traceN == traceCap {
		traceLost++
		return
	}
	traceBuf[traceN] = traceEv{kind: kind, a: int32(a), b: int32(b), c: int32(c), step: steps}
	traceN++
}

//go:norace
func traceGet(i int) traceEv { return traceBuf[i] }

//go:norace
func traceLen() (int, int) { return int(traceN), int(traceLost) }

func siteName(s int) string {
	if s >= MaxSites {
		names := [...]string{"op-boundary", "after-pool-get", "before-pool-put", "after-lock", "before-unlock", "callback", "before-lock", "after-unlock", "map-order", "task-start", "channel-op"}
		if s-MaxSites < len(names) {
			return "seam:" + names[s-MaxSites]
		}
		return "seam?"
	}
	if s >= 0 && s < len(Sites) {
		return fmt.Sprintf("%s:%d(%s)", Sites[s].File, Sites[s].Line, Sites[s].Func)
	}
	return fmt.Sprint("site", s)
}

// TraceLines renders the recorded events (at most max lines).
func TraceLines(max int) []string {
	n, lost := traceLen()
	var out []string
	for i := 0; i < n && len(out) < max; i++ {
		e := traceGet(i)
		switch e.kind {
		case EvSwitch:
			out = append(out, fmt.Sprintf("step %d: switch task%d -> task%d at %s", e.step, e.a, e.b, siteName(int(e.c))))
		case EvPoolFresh:
			out = append(out, fmt.Sprintf("step %d: task%d pool.Get -> fresh object", e.step, e.a))
		case EvPoolReuse:
			out = append(out, fmt.Sprintf("step %d: task%d pool.Get -> recycled object #%d put by task%d", e.step, e.a, e.b, e.c))
		case EvPoolDrop:
			out = append(out, fmt.Sprintf("step %d: task%d pool.Put -> object dropped", e.step, e.a))
		case EvMapOrder:
			out = append(out, fmt.Sprintf("step %d: map iteration order policy %d over %d keys", e.step, e.a, e.b))
		case EvInject:
			out = append(out, fmt.Sprintf("step %d: task%d injected panic at %s", e.step, e.a, siteName(int(e.c))))
		case EvBlock:
			out = append(out, fmt.Sprintf("step %d: task%d blocks on a mutex", e.step, e.a))
		case EvDone:
			out = append(out, fmt.Sprintf("step %d: task%d finished, next task%d", e.step, e.a, e.b))
		}
	}
	if lost > 0 || n > len(out) {
		out = append(out, fmt.Sprintf("… %d more events", n-len(out)+lost))
	}
	return out
}
