module verif

go 1.23
